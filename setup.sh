#!/bin/sh
# Build the analyser from vendored sources only (offline).
set -e
cd "$(dirname "$0")"
. ./env.sh
mkdir -p bin evidence
cd sa && go build -mod=vendor -o ../bin/rsa .
