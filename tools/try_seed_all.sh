#!/bin/sh
# tools/try_seed_all.sh <seed dir>: apply the change to /repo, run every registered check (6 at a time), list which fire, undo.
d=$(cd "$1" && pwd); cd /verif
props=$(python3 -c "import json;print(' '.join(c['property_id'] for c in json.load(open('MANIFEST.json'))['checks']))")
git -C /repo apply "$d/patch.diff" || { echo "APPLY-FAILED $d"; exit 3; }
fired=$(echo $props | tr ' ' '\n' | xargs -P 6 -I{} sh -c './run.sh {} quick >/tmp/tsa.{}.out 2>&1; rc=$?; [ $rc -ne 0 ] && echo "{}(rc=$rc)"' | sort | tr '\n' ' ')
git -C /repo checkout -- .
echo "SEED $(basename $d) FIRED: $fired"
