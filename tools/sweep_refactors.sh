#!/bin/bash
# tools/sweep_refactors.sh: every behaviour-preserving refactoring under refactors/ is applied to a scratch
# copy of /repo's tracked files; it must build, pass the suite, and leave every check silent.
# (PAR refactorings at a time, each with a private copy of the analyser binary.)
cd /verif; . ./env.sh
out=refactors/RESULTS.md
work=/tmp/sweepref.$$; mkdir -p $work; cp bin/rsa $work/rsa
ls -d refactors/${ONLY:-C*}/ | xargs -P ${PAR:-4} -I{} sh -c "RSA=$work/rsa GOMAXPROCS=4 tools/try_refactor.sh {} 2>&1 | tail -1 > $work/\$(basename {}).res"
echo "| refactoring | builds / suite | checks that raise an alarm (rules) |" > $out
echo "|---|---|---|" >> $out
for d in refactors/${ONLY:-C*}/; do
  id=$(basename $d)
  res=$(cat $work/$id.res)
  b=$(echo "$res" | sed -E 's/.*: (build=[a-zA-Z]+ suite=[a-zA-Z]+).*/\1/')
  a=$(echo "$res" | sed -E 's/.*alarms: //')
  echo "| $id | $b | $a |" >> $out
done
rm -rf $work
cat $out
