#!/bin/bash
# tools/sweep_refactors.sh: every behaviour-preserving refactoring under refactors/ is applied to a scratch
# copy of /repo's tracked files; it must build, pass the suite, and leave every check silent.
cd /verif; . ./env.sh
out=refactors/RESULTS.md
echo "| refactoring | builds / suite | checks that raise an alarm (rules) |" > $out
echo "|---|---|---|" >> $out
for d in refactors/${ONLY:-C*}/; do
  id=$(basename $d)
  res=$(tools/try_refactor.sh $d 2>&1 | tail -1)
  b=$(echo "$res" | sed -E 's/.*: (build=[a-zA-Z]+ suite=[a-zA-Z]+).*/\1/')
  a=$(echo "$res" | sed -E 's/.*alarms: //')
  echo "| $id | $b | $a |" >> $out
done
cat $out
