#!/bin/bash
# tools/try_refactor.sh <dir with patch.diff>: a behaviour-preserving change. Apply it to a scratch copy of
# /repo's tracked files, confirm it builds and the suite passes there, then run every check against the copy:
# all must stay silent.
d=$(cd "$1" && pwd); cd /verif; . ./env.sh
w=/tmp/refac.$$; mkdir -p $w
git -C /repo ls-files -z | (cd /repo && xargs -0 cp --parents -t $w)
(cd $w && git apply "$d/${PATCH:-patch.diff}") || { echo "REFACTOR $d: APPLY-FAILED"; rm -rf $w; exit 3; }
res=""
(cd $w && go build ./... >/dev/null 2>&1) && res="$res build=ok" || res="$res build=FAIL"
(cd $w && go test -vet=off -count=1 ./... >/dev/null 2>&1) && res="$res suite=pass" || res="$res suite=FAIL"
alarms=$(${RSA:-bin/rsa} matrix --repo $w 2>$w.err | awk '$2>0 {printf "%s(%s) ", $1, $3}')
rm -rf $w $w.err
echo "REFACTOR $d:$res alarms: ${alarms:-none}"
