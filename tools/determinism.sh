#!/bin/bash
# tools/determinism.sh [n]: run every registered check n times (default 5) on the current /repo
# (evidence to a scratch dir) and report any run whose verdict line differs from the first.
cd /verif; . ./env.sh
n=${1:-5}
props=$(python3 -c "import json;print(' '.join(c['property_id'] for c in json.load(open('MANIFEST.json'))['checks']))")
w=/tmp/determ.$$; mkdir -p $w; cp known_findings.json $w/
for i in $(seq 1 $n); do for p in $props; do echo "$p $i"; done; done | GOMAXPROCS=4 xargs -P 6 -L 1 sh -c 'mkdir -p '$w'/$1; cp '$w'/known_findings.json '$w'/$1/; /verif/bin/rsa check --property $0 --repo /repo --verif '$w'/$1 2>&1 | grep -E "obligations|VIOLATION|ANALYSIS" | sed -E "s/, [0-9.]+s$//" > '$w'/$0.$1.out'
bad=0
for p in $props; do
  for i in $(seq 2 $n); do cmp -s $w/$p.1.out $w/$p.$i.out || { echo "NONDETERMINISTIC $p run $i:"; diff $w/$p.1.out $w/$p.$i.out; bad=1; }; done
  head -1 $w/$p.1.out
done
rm -rf $w
exit $bad
