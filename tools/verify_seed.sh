#!/bin/sh
# tools/verify_seed.sh <dir with patch.diff + demo_test.go>: confirm in a scratch worktree of
# /repo HEAD that the change compiles, passes the suite, and that the demo fails with / passes without it.
d=$1
export GOFLAGS=-mod=mod GOPROXY=off GOSUMDB=off GOTOOLCHAIN=local; unset GOWORK
wt=/tmp/wt/verify.$$
git -C /repo worktree add -q --detach $wt HEAD || exit 3
cd $wt
res=""
if git apply "$d/${PATCH:-patch.diff}"; then
  go build ./... >/dev/null 2>&1 && res="$res build=ok" || res="$res build=FAIL"
  go test -vet=off -count=1 ./... >/dev/null 2>&1 && res="$res suite=pass" || res="$res suite=FAIL"
  cp "$d/demo_test.go" zz_seeded_demo_test.go
  go test -vet=off -count=1 -run TestSeeded . >/dev/null 2>&1 && res="$res demo_with=PASS(unexpected)" || res="$res demo_with=fail"
  git checkout -q -- . 
  go test -vet=off -count=1 -run TestSeeded . >/dev/null 2>&1 && res="$res demo_without=pass" || res="$res demo_without=FAIL(unexpected)"
else
  res="apply=FAIL"
fi
cd /; git -C /repo worktree remove --force $wt
echo "VERIFY $d:$res"
