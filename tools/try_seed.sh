#!/bin/sh
# tools/try_seed.sh <dir with patch.diff> [props...]: apply the seeded change to /repo,
# run the given checks (default: all registered), report which fire, undo.
d=$1; shift
cd /verif
props="$@"
[ -n "$props" ] || props=$(python3 -c "import json;print(' '.join(c['property_id'] for c in json.load(open('MANIFEST.json'))['checks']))")
d=$(cd "$d" && pwd); git -C /repo apply "$d/${PATCH:-patch.diff}" || { echo "APPLY-FAILED $d"; exit 3; }
fired=""
for p in $props; do
  out=$(./run.sh $p quick 2>&1); rc=$?
  if [ $rc -ne 0 ]; then fired="$fired $p(rc=$rc)"; echo "$out" | grep -E "^  [A-Z]|ANALYSIS" | head -6 | cut -c1-220; fi
done
git -C /repo checkout -- .
echo "SEED $d FIRED:$fired"
