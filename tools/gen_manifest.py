#!/usr/bin/env python3
"""Regenerates /verif/MANIFEST.json from the table below (kept in one place so
the manifest stays valid while checks are added)."""
import json, os
V = os.path.dirname(os.path.dirname(os.path.abspath(__file__)))
props = [json.loads(l) for l in open(os.path.join(V, 'properties.jsonl'))]

claimed = {
 "C04": ("typestate / path-sensitive abstract simulation (fsproto)", "DESIGN §3.2, §4 C04, §5",
   "Every path of every stack operation (Add, the public Addition protocol, AutoCompact, CompactAll, Clean, Close, NewStack) obeys the commit-protocol rules LIST-WRITE/HELD/VALID/CONTENT/COMPLETE, POST-COMMIT-OK, FAIL-NO-EFFECT, LOCK-OWN and the up-to-date check really compares all names; compaction rewrites every record unmodified, reads the raw (tombstone-preserving) view of exactly its range and drops a ref only as a tombstone at the bottom (COMPACT-*, DT-TOMB-REF, ERR-PROPAGATE); every Table accessor of a sibling implementation derives its answer from the receiver (ACCESSOR). These per-handle rules are necessary conditions of linearizability; the step to the global property is the rely/guarantee argument of DESIGN §5 (trusted, on paper).",
   "fault-free filesystem outcome table; relies R1-R3, T1-T4; loop summarisation by generic iteration; order inside lists not tracked"),
 "C05": ("typestate / ordering rules on all paths (fsproto)", "DESIGN §3.2, §4 C05",
   "On every path: table renamed into place (closed, update-index gate passed, written with the handle's hash id - HASH-TYPE - under a name drawn fresh per table - NAME-FRESH) before a list names it; unlink only of tables not named by the latest list this handle committed or read; Clean only under the validated lock; commits are exclusive (LOCK-EXCL, LOCK-OWN). Necessary per-handle conditions of 'the list always names existing ordered tables'.",
   "same model as C04; validity of table contents is not decided"),
 "C06": ("crash-prefix safety of the filesystem event sequence (fsproto)", "DESIGN §3.2, §4 C06",
   "A crash truncates one handle's event sequence; the rules PRE-COMMIT-INVISIBLE, ORDER-TABLE-FIRST, ORDER-DELETE-LAST, LIST-WRITE, LIST-COMPLETE, LIST-CONTENT, LOCK-OWN make every prefix of every path leave the old or the new committed state.",
   "process crashes only; rename atomic (T2)"),
 "C08": ("lock typestate on all paths incl. deferred closures (fsproto)", "DESIGN §3.2, §4 C08",
   "Every lock creation is O_EXCL|O_CREATE; every remove/rename of a *.lock path happens while this operation holds the token it created; a failed acquirer never removes the lock; garbage collection of directory entries (Clean) removes only entries whose established suffix excludes lock files; a second pass gives every exclusive create a third outcome (an error other than EEXIST) and checks that nothing is removed or renamed on a path on which the acquisition failed that way.",
   "atomicity of O_EXCL is trusted; releases inside loops are weak updates"),
 "C09": ("must-pass-through validation under the current lock tenure (fsproto)", "DESIGN §3.2, §4 C09",
   "No path renames the list or lets Clean remove a file without an up-to-date check (lengths and every name) in the current lock tenure; ErrLockFailure from Add implies reload; nothing (lock, temp file, table) is owned when ErrLockFailure is returned (STALE-NO-RESIDUE); the update-index gate uses the transaction's running next index.",
   "success of the retry (liveness) not decided"),
 "C10": ("reader ownership typestate in reload (fsproto)", "DESIGN §3.2, §4 C10",
   "A reader that remains in the handle's stack at an exit is never closed on the way; the stored stack holds a reader for every name of the one list read; merged view rebuilt from it with deletions suppressed; tables are published only under names drawn fresh per table (reuse of open readers by name is sound only then); file handles are used positionally (HANDLE-KEEP); commits are exclusive (LOCK-OWN), so a handle's view is never replaced by another handle's lock file.",
   "the 2.5 s retry deadline and timing are not modelled"),
 "C16": ("resource pairing at every exit (fsproto)", "DESIGN §3.2, §4 C16",
   "At every exit of every operation and protocol sequence no lock, temp file or unlisted new table is still owned; Close/Clean/post-compaction cleanup unlink only tables not named by the latest list (ORDER-DELETE-LAST); Close, Clean, CompactAll and the merged accessors are total on an empty stack (EMPTY-STACK).",
   "global quiescence of the directory follows from per-operation pairing plus C05; not enumerated"),
 "C07": ("decision table of the compaction rewrite loop + fsproto range partition", "DESIGN §3.3, §4 C07",
   "Every path of one generic iteration of the rewrite loops either hands the unmodified record to AddRef/AddLog or drops it, and a drop implies (range starts at table 0 and IsDeletion) or expiry; the merged view is the raw view of exactly stack[first..last]; limits are (min first, max last); the new list keeps exactly the other tables plus the new one; a finished merge is published; a failed read or write of the rewrite fails the compaction (ERR-PROPAGATE); the compaction's writer gets the handle's configuration field by field (CONFIG-SAME).",
   "necessary conditions only: equality of the view before/after is not decided; record codec fidelity belongs to C01"),
 "C13": ("exact decision table of the expiry filter by valuation enumeration", "DESIGN §3.3, §4 C13, Appendix A.1 DT-EXPIRY",
   "KEEP implies not expired and DROP implies expired (or bottom tombstone) for every valuation of the seven comparison atoms consistent with the order theory; refs are never dropped by expiry; an expiring compaction publishes its result and works on the stack validated under the lock, unchanged between validation and rewrite (LIST-VALID, LIST-CONTENT).",
   "byte-for-byte preservation of kept entries is not decided (C01)"),
 "C03": ("decision tables + dataflow of the merged iterator", "DESIGN §3.3, §4 C03",
   "Heap order, shadow loop, deletion suppression and the NewMerged precondition agree with the specification for every valuation of their comparison atoms; heap entry index = slot of the producing sub-iterator, slots never move, merged seek consults every table in stack order and returns a suppressing merged iterator; stack view suppresses, compaction view does not; the sift-down and sift-up loops of the heap keep the heap order (HEAP-SIFT: per generic iteration, over an uninterpreted rank with a transitive strict order); iterators of one view share no mutable state through it (VIEW-STATELESS).",
   "per-table iterator correctness is not decided; heap index arithmetic is checked for the shapes 2i+1, 2i+2, (i-1)/2 only"),
 "C12": ("decision tables of the name validator / conflict walk + gate typestate (narrow)", "DESIGN §3.3, §4 C12",
   "Component validity table exact; acceptance requires validated name, negative prefix lookup and a complete ancestor walk; name check is a gate before a table is renamed into place; unchecked only with SkipNameCheck; validation view hides deletions; the prefix lookup answers no only after exhausting the iterator and never takes a record deleted by the transaction for the answer (LOOKUP-SOUND).",
   "completeness over histories and the cross-table check within one multi-table Addition are NOT decided"),
 "C19": ("effect analysis over the read-API call graph (who may write what)", "DESIGN §3.5, §4 C19",
   "Nothing reachable from the read API writes through a shared Reader/Merged/block source/block reader, into block bytes, or to package-level state; file handles are used positionally only; shared types hold no per-caller objects. Immutability after construction is the design's race-freedom argument and is decided for all code paths.",
   "type-based sharing; user-supplied BlockSources and lock-protected caches are outside the rule"),
 "C11": ("sibling agreement + decision tables on the RefsFor / point-lookup paths", "DESIGN §3.4, §4 C11",
   "Update-index delta written by the writer is added back on every path that yields a caller's RefRecord; every point lookup compares the name found; both filters yield exactly on value/peeled-value match; merged RefsFor re-checks against its own view; object index fed from value and peeled value; an object found in the index is never answered with the empty iterator (omitted position list = scan, OMITTED-FALLBACK); key strings are handled byte-wise in the codec (KEY-BYTEWISE); the reader does not assume block alignment of the listed positions (ALIGN-FREE); the writer stores a position list whole or not at all (OBJ-LIST-WHOLE); nilable iterators checked.",
   "exactness of the result set for given data and object-index contents are not decided"),
 "C02": ("writer index typestate (verified summaries) + seek decision tables", "DESIGN §3.1, §3.3, §4 C02",
   "No index block is dropped unflushed and no pending index entry survives a section on any path of the writer; index entries record the block's start offset; in-block scan, restart predicate, linear block skip and index descent agree with their specification for all valuations; reads from a table iterator roll over blocks; nothing on the read path writes state a later seek on the same Reader could observe (SEEK-STATELESS); a block is opened from a read at least as wide as the table's block size so that the padding probe exists (READ-WIDTH); the reader never tests offsets for alignment to the block size (ALIGN-FREE).",
   "necessary conditions only: equality of seek+scan with the scan suffix for a given table is not decided (offset/padding arithmetic)"),
 "C01": ("writer gates, deletion preservation, restart cap, encode/decode wire-sequence agreement and output byte accounting by path simulation", "DESIGN §3.3, §3.4, §4 C01",
   "A deletion record reaches the block writer as a deletion; IsDeletion holds exactly when every payload field is empty; refs are written only inside the declared update-index limits and keys strictly ascending; restart points are recorded only while the 16-bit count has room and only for uncompressed keys; for every record kind and value type the wire events written by encode equal those read by decode, key codec constants agree (WIRE-AGREE, KEY-BITS, LOGKEY-CODEC); a block is opened from a read at least as wide as the table's block size (READ-WIDTH) and a scan does not depend on earlier reads through the same Reader (SCAN-STATELESS); the output sink reports exactly bytes written plus owed padding and pads with the pending length of zero bytes (OUT-ACCOUNT); codec strings handled byte-wise (KEY-BYTEWISE); update-index delta agreement (DELTA under C11).",
   "round-trip equality of a given record set (block boundary, padding, varint and zlib arithmetic) is not decided"),
 "C14": ("layout and constants vs a frozen table transcribed from the format specification + wire sequences, index typestate, byte accounting by path simulation", "DESIGN §3.4, §4 C14, Appendix A.3",
   "Block type bytes, magic, header/footer sizes and field layout, footer field order and wiring, object-id bits, CRC kind, restart/length widths, hash ids and sizes, restart cap and file naming extracted from the Go sources equal the specification table; size identities between structs and size functions hold; writer and reader serialise the same struct types; the wire sequence of each record kind equals the one the format prescribes (WIRE-SPEC); every flushed block gets exactly one index entry with its start offset and no entry leaks across sections (NO-DROP, SECTION-CLEAN, INDEX-OFFSET); a rejected record leaves the block writer unchanged so index entries name the last key really in the block (ADD-ATOMIC); padding has exactly the owed length and is zero (OUT-ACCOUNT); an object record's position list is the complete collected list or empty (OBJ-LIST-WHOLE).",
   "that a particular emitted file parses; object-index contents; CRC value"),
 "C15": ("Go layout table vs the same table extracted from the C sources (clang AST / preprocessor, parsed only)", "DESIGN §3.4, §4 C15",
   "About twenty constants and layouts (block types, sizes, header layout, footer order on the writing and the parsing side, object-id bits, hash ids, restart cap, default block size, stack file naming) agree entry by entry between c/ and the Go package; the Go list reader tolerates the C list layout.",
   "behavioural equivalence of the implementations is not decided; narrow claim"),
 "C17": ("decision rules on every path of the compaction chooser and of AutoCompact (narrow: structural clauses only)", "DESIGN §4 C17, §10.9",
   "Narrow: the chooser adopts a candidate segment only on a path that excluded a one-table segment; it reports nothing to do exactly when no segment was adopted; after the choice the segment only grows downward one table at a time (stays one contiguous range containing the adopted one); AutoCompact compacts exactly [seg.start, seg.end-1] of a non-nil choice, without expiry, and does nothing otherwise. With C07's range rules: what auto-compaction merges is one contiguous range that is never a single table.",
   "NOT decided (quantify over numeric size vectors and workloads): which size class is adopted, that 'nothing to do' coincides with 'no two adjacent tables in one class', the 2*log2(N) depth bound and the N*log2(N) rewrite cost, non-negativity of candidate sizes"),
 "C18": ("panic reachability vs allow-table, nil contracts, bounds obligations in a linear-inequality domain over simulated paths", "DESIGN §3.6, §4 C18, Appendix B",
   "No input-controlled explicit panic is reachable from the read API; nilable results are checked before use; all ~300 index/slice/allocation obligations of the 22 decoder and opener functions are discharged on every path from linear facts (loop invariants checked inductively, value-changing conversions opaque, unsigned differences opaque unless shown not to wrap); a nilable result is also not handed to a function that dereferences the parameter; inflated data is read through a limit; the index descent checks the type of the block an index entry leads to (DT-DESCEND, precondition of an allow-table entry).",
   "termination is decided for the index descent only (DESCEND-DECREASES: every step leads to a strictly lower offset); obligations outside the decoder set are not generated; preconditions and field invariants listed in the evidence are assumed"),
}
not_applicable_reason = {
}
# clauses added in round 4 (DESIGN §10.10)
extra = {
 "C01": "The limit handed to the inflater of a log block leaves room for the stream terminator and the block is read to EOF, so the on-disk length of the block is exact (INFLATE-SLACK).",
 "C02": "The in-block scan of a seek advances with the same decoder as iteration: one decoder of value sizes per record kind (SINGLE-DECODER); the predicate of the restart search may be a closure or a method value. A table answers 'no records' without reading a block only when the section is absent (SEEK-NO-SHORTCUT). The record sought is never written by a table's seek (SEEK-KEY-INTACT); the restart table is addressed without wrap-around in narrow types (RESTART-ARITH).",
 "C03": "Every record a sub-iterator returned with ok is queued on every path of init and advance (MERGE-NO-DROP). Every table of a view is asked for the same key: the seek record is an input (SEEK-KEY-INTACT).",
 "C06": "The update-index gate compares with the transaction's running next index and rejects an inverted range (GATE-IDX).",
 "C07": "What is spliced into the new list is the image of the list validated under the lock (LIST-VALID).",
 "C11": "RefsFor keeps no per-lookup state on the shared Reader (REFSFOR-STATELESS). Every successful return of the merged RefsFor hands out the re-checking filter (DOUBLE-CHECK on all returns). The number of positions of an object record is stored in exactly one place (OBJ-COUNT-AGREE) and every ref block of an object is recorded (OBJ-INDEX-EVERY-BLOCK).",
 "C12": "The name check keeps no state on the handle between transactions (NAMECHECK-STATELESS). A deleted name stays deleted through compaction (COMPACT-RAW, DT-TOMB-REF). Known finding (TX-VIEW): the tables of one multi-table Addition are not checked against each other.",
 "C13": "The compaction writes with the handle's configuration unchanged (CONFIG-SAME). An expiring compaction of a possibly non-empty stack reports success only after the list was replaced, unless it gave up under the lock protocol (EXPIRY-APPLIED).",
 "C04": "The tables outside a compacted range stay listed whenever there can be any (LIST-CONTENT completeness). The update-index gate uses the transaction's running next index (GATE-IDX).",
 "C15": "The Go side never writes or accepts a stored log block, which the C reader cannot read (LOG-DEFLATED).",
 "C08": "A lock path is never created or written by name (LOCK-EXCL covers os.Create, WriteFile on *.lock).",
 "C09": "The names an up-to-date check compares were read from the list file during that very call (no cached copy).",
 "C16": "A commit happens only under a validated list (LIST-VALID, UPTODATE-MEANS-EQUAL): a stale commit orphans tables.",
 "C17": "The chosen range is applied to the stack it was chosen for: the compaction goes on only under a validated list (LIST-VALID, LIST-CONTENT).",
 "C14": "The index position recorded for a section is taken per index level, inside the loop that writes the levels, also through helpers (INDEX-ROOT). No stored log block: on the log-type branch the block finisher returns only the deflater's buffer and the opener always inflates (LOG-DEFLATED). Object records: count in the key bits or as a varint, never both (OBJ-COUNT-AGREE); every ref block of an object is recorded (OBJ-INDEX-EVERY-BLOCK).",
 "C18": "Predicates handed to sort.Search (closures or method values) are analysed for 0 <= i < n; helpers that are not in range for arbitrary arguments are decided in every caller's context on the read paths. Parallel slice fields indexed with one index stay the same length (SIDE-ARRAY); the index descent has a ranking function: an unsigned field of the iterator handed on decreases at every back edge (DESCEND-DECREASES).",
}
pending = "static check not built yet in this round (see DESIGN §9 build order); nothing is claimed"

checks, na = [], []
for p in props:
    i = p["id"]
    if i in claimed:
        tech, ref, text, note = claimed[i]
        if i in extra:
            text = text.rstrip() + " " + extra[i]
        checks.append({
          "property_id": i,
          "quick_cmd": "./run.sh %s quick" % i,
          "thorough_cmd": "./run.sh %s thorough" % i,
          "evidence_file": "evidence/%s.json" % i,
          "replay_cmd_template": "./run.sh explain {path}",
          "engine": "rsa",
          "level_claimed": {"category": "other", "text": text, "design_ref": ref},
          "level_note": note,
          "technique": "static analysis: " + tech,
        })
    else:
        na.append({"property_id": i, "reason": not_applicable_reason.get(i, pending)})
m = {
 "version": 1,
 "setup_cmd": "./setup.sh",
 "hooks": {"guard": "verif", "enable": "no hook is compiled in: the analyser only reads /repo's sources (go/packages + go/ssa), nothing under /repo is executed",
           "baseline_off_cmd": "cd /repo && go test -vet=off -count=1 ./...", "source_commits": [], "add_only": True},
 "engines": [{"name": "rsa", "path": "sa/", "serves_properties": sorted(claimed), "kind_free_text": "repository-specific static analyser over go/types + go/ssa (x/tools v0.29.0, vendored): path-sensitive abstract simulation with typestate (pathsim/fsproto), decision tables, effect and layout analyses"}],
 "checks": checks,
 "notes": "Static analysis only (DESIGN.md). Exit 0 = all obligations discharged on the current /repo tree; exit 1 + VIOLATION lines = a rule broken on a witnessed path, an undischarged obligation, or (rule UNDECIDED) an anchor / instance floor the analysis can no longer resolve on this tree; exit 2 = the tree does not load or type-check. The thorough tier adds, on scratch copies of the current tree analysed by the same static analysis: mutation sensitivity (every seeded change stored for the property must be reported: SELFTEST-MISS otherwise), fix regression (every recorded fix: commit of the property is reverse-applied and must be reported again: REGRESSION-MISS otherwise), refactor silence (the behaviour-preserving refactorings stored for the property must leave it silent: REFACTOR-ALARM otherwise) and, for the file-protocol properties, an advisory run under the I/O-fault model; none of these lines changes the exit code. known_findings.json lists repaired defects (fix: commits in /repo) and recorded findings (KNOWN-FINDING lines, exit 0). A simulation that exceeds its budget (state size, steps) ends with rule UNDECIDED instead of running on.",
 "not_applicable": na,
}
json.dump(m, open(os.path.join(V, 'MANIFEST.json'), 'w'), indent=1)
print("checks:", [c["property_id"] for c in checks], "n/a:", [n["property_id"] for n in na])
