#!/bin/bash
# tools/sweep_seeds.sh: for every seeded change, apply it to /repo, run every registered check
# (in parallel, evidence written to a scratch dir), record which checks fire, undo. Writes seeded/RESULTS.md.
cd /verif; . ./env.sh
# by default only the seed's own property is checked; FULL=1 runs every registered check (slow)
allprops=$(python3 -c "import json;print(' '.join(c['property_id'] for c in json.load(open('MANIFEST.json'))['checks']))")
ev=/tmp/sweep_ev.$$; mkdir -p $ev; cp known_findings.json $ev/
out=seeded/RESULTS.md
echo "| seed | property | fired checks (exit 1) | rules reported by the property's own check |" > $out
echo "|---|---|---|---|" >> $out
for d in seeded/C*/; do
  id=$(basename $d); prop=${id%-*}
  git -C /repo apply "$(pwd)/$d/patch.diff" || { echo "| $id | $prop | APPLY FAILED | |" >> $out; continue; }
  props=$prop; [ -n "$FULL" ] && props=$allprops
  for p in $props; do ( bin/rsa check --property $p --repo /repo --verif $ev > $ev/$p.out 2>&1; echo $? > $ev/$p.rc ) & done; wait
  fired=""; for p in $props; do rc=$(cat $ev/$p.rc); [ "$rc" = "1" ] && fired="$fired $p"; [ "$rc" = "2" ] && fired="$fired $p(incomplete)"; done
  rules=$(grep -E "^  [A-Z][A-Z0-9-]+ / " $ev/$prop.out | sed -E 's/^  ([A-Z0-9-]+) \/ .*/\1/' | sort -u | tr '\n' ' ')
  echo "| $id | $prop |$fired | $rules |" >> $out
  git -C /repo checkout -- .
done
rm -rf $ev
cat $out
