#!/bin/bash
# tools/sweep_seeds.sh: for every seeded change, apply it to a scratch copy of /repo's tracked
# files (outside /repo and /verif, removed afterwards) and run checks against that copy; record
# which checks fire in seeded/RESULTS.md.  By default only the seed's own property is checked;
# FULL=1 runs every registered check against every seed (the cross matrix).
cd /verif; . ./env.sh
allprops=$(python3 -c "import json;print(' '.join(c['property_id'] for c in json.load(open('MANIFEST.json'))['checks']))")
work=/tmp/sweep.$$; mkdir -p $work/ev; cp known_findings.json $work/ev/
jobs=$work/jobs; : > $jobs
for d in seeded/C*/; do
  id=$(basename $d); prop=${id%-*}
  mkdir -p $work/$id
  git -C /repo ls-files -z | (cd /repo && xargs -0 cp --parents -t $work/$id)
  (cd $work/$id && git apply "/verif/$d/patch.diff") || { echo "$id APPLY-FAILED" >> $work/failed; continue; }
  props=$prop; [ -n "$FULL" ] && props=$allprops
  for p in $props; do echo "$id $p" >> $jobs; done
done
run_one() { id=$1; p=$2; work=$3; mkdir -p $work/ev/$id; cp $work/ev/known_findings.json $work/ev/$id/; /verif/bin/rsa check --property $p --repo $work/$id --verif $work/ev/$id > $work/ev/$id/$p.out 2>&1; echo $? > $work/ev/$id/$p.rc; }
export -f run_one
cat $jobs | xargs -P ${PAR:-10} -L 1 bash -c 'run_one $0 $1 '$work
out=seeded/RESULTS.md
echo "| seed | property | checks that fire (exit 1) | rules reported by the property's own check |" > $out
echo "|---|---|---|---|" >> $out
for d in seeded/C*/; do
  id=$(basename $d); prop=${id%-*}
  fired=""
  for rcf in $work/ev/$id/*.rc; do [ -f "$rcf" ] || continue; p=$(basename $rcf .rc); rc=$(cat $rcf); [ "$rc" = "1" ] && fired="$fired $p"; [ "$rc" != "0" ] && [ "$rc" != "1" ] && fired="$fired $p(rc=$rc)"; done
  rules=$(grep -E "^  [A-Z][A-Z0-9-]+ / " $work/ev/$id/$prop.out 2>/dev/null | sed -E 's/^  ([A-Z0-9-]+) \/ .*/\1/' | sort -u | tr '\n' ' ')
  echo "| $id | $prop |$fired | $rules |" >> $out
done
[ -f $work/failed ] && cat $work/failed
rm -rf $work
cat $out
