#!/bin/bash
# tools/sweep_seeds.sh: for every seeded change, apply it to a scratch copy of /repo's tracked
# files (outside /repo and /verif, removed afterwards) and run `rsa matrix` (every registered
# check, one process per seed) against that copy; record which checks fire in seeded/RESULTS.md.
cd /verif; . ./env.sh
work=/tmp/sweep.$$; mkdir -p $work; cp /verif/bin/rsa $work/rsa
ids=""
for d in seeded/${ONLY:-C*}/; do
  id=$(basename $d)
  mkdir -p $work/$id
  git -C /repo ls-files -z | (cd /repo && xargs -0 cp --parents -t $work/$id)
  (cd $work/$id && git apply "/verif/$d/patch.diff") || { echo "$id APPLY-FAILED" >> $work/failed; continue; }
  ids="$ids $id"
done
echo $ids | tr ' ' '\n' | GOMAXPROCS=4 xargs -P ${PAR:-8} -I{} sh -c "$work/rsa matrix --repo $work/{} > $work/{}.out 2>$work/{}.err"
out=seeded/RESULTS.md
echo "| seed | property | rules reported by the property's own check | other checks that report it (rules) |" > $out
echo "|---|---|---|---|" >> $out
for id in $ids; do
  prop=${id%-*}
  own=$(awk -v p=$prop '$1==p {print $3}' $work/$id.out)
  others=$(awk -v p=$prop '$1!=p && $2>0 {printf "%s (%s) ", $1, $3}' $work/$id.out)
  [ -s $work/$id.out ] || own="ANALYSIS FAILED: $(tail -1 $work/$id.err)"
  echo "| $id | $prop | $own | $others |" >> $out
done
[ -f $work/failed ] && cat $work/failed
rm -rf $work
cat $out
