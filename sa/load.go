package main

import (
	"fmt"
	"go/token"
	"go/types"
	"os"
	"sort"
	"strings"

	"golang.org/x/tools/go/packages"
	"golang.org/x/tools/go/ssa"
	"golang.org/x/tools/go/ssa/ssautil"
)

// Program is the resolved program under analysis: type-checked packages of
// the module at Repo plus go/ssa for them.  Everything the engines look at
// comes from here; nothing is ever executed.
type Program struct {
	Repo  string
	Fset  *token.FileSet
	Pkgs  []*packages.Package
	Main  *packages.Package // github.com/google/reftable
	SSA   *ssa.Program
	Pkg   *ssa.Package
	Funcs []*ssa.Function // all source functions of Pkg incl. methods and closures, sorted
	byKey map[string]*ssa.Function
}

const modulePath = "github.com/google/reftable"

type analysisError struct{ msg string }

func (e analysisError) Error() string { return e.msg }

// fatalf aborts the analysis with exit code 2 (no verdict).
func fatalf(format string, a ...interface{}) {
	panic(analysisError{fmt.Sprintf(format, a...)})
}

func loadProgram(repo string, goarch string, overlay map[string][]byte) *Program {
	env := append(os.Environ(), "GOFLAGS=-mod=mod", "GOPROXY=off", "GOSUMDB=off", "GOTOOLCHAIN=local", "GOWORK=off", "CGO_ENABLED=0")
	if goarch != "" {
		env = append(env, "GOARCH="+goarch)
	}
	cfg := &packages.Config{
		Mode: packages.NeedName | packages.NeedFiles | packages.NeedCompiledGoFiles | packages.NeedImports |
			packages.NeedDeps | packages.NeedTypes | packages.NeedTypesSizes | packages.NeedSyntax | packages.NeedTypesInfo | packages.NeedModule,
		Dir:     repo,
		Env:     env,
		Tests:   false,
		Overlay: overlay,
	}
	pkgs, err := packages.Load(cfg, "./...")
	if err != nil {
		fatalf("load %s: %v", repo, err)
	}
	if len(pkgs) < 1 {
		fatalf("load %s: no packages", repo)
	}
	nerr := 0
	packages.Visit(pkgs, nil, func(p *packages.Package) {
		for _, e := range p.Errors {
			if strings.HasPrefix(p.PkgPath, modulePath) {
				fmt.Fprintf(os.Stderr, "load error: %s: %v\n", p.PkgPath, e)
				nerr++
			}
		}
	})
	if nerr > 0 {
		fatalf("load %s: %d type/parse errors in the module", repo, nerr)
	}
	p := &Program{Repo: repo, Pkgs: pkgs, byKey: map[string]*ssa.Function{}}
	for _, pk := range pkgs {
		if pk.PkgPath == modulePath {
			p.Main = pk
		}
	}
	if p.Main == nil {
		fatalf("package %s not found under %s", modulePath, repo)
	}
	p.Fset = p.Main.Fset
	prog, spkgs := ssautil.AllPackages(pkgs, ssa.InstantiateGenerics)
	prog.Build()
	p.SSA = prog
	for i, pk := range pkgs {
		if pk == p.Main {
			p.Pkg = spkgs[i]
		}
	}
	if p.Pkg == nil {
		fatalf("no SSA for %s", modulePath)
	}
	seen := map[*ssa.Function]bool{}
	var add func(f *ssa.Function)
	add = func(f *ssa.Function) {
		if f == nil || seen[f] || f.Blocks == nil {
			return
		}
		seen[f] = true
		p.Funcs = append(p.Funcs, f)
		for _, a := range f.AnonFuncs {
			add(a)
		}
	}
	for _, m := range p.Pkg.Members {
		switch m := m.(type) {
		case *ssa.Function:
			add(m)
		case *ssa.Type:
			for _, t := range []types.Type{m.Type(), types.NewPointer(m.Type())} {
				ms := prog.MethodSets.MethodSet(t)
				for i := 0; i < ms.Len(); i++ {
					f := prog.MethodValue(ms.At(i))
					if f != nil && f.Pkg == p.Pkg && f.Synthetic == "" {
						add(f)
					}
				}
			}
		}
	}
	resolveAliases(p.Funcs, p.Main.Types)
	sort.Slice(p.Funcs, func(i, j int) bool { return funcKey(p.Funcs[i]) < funcKey(p.Funcs[j]) })
	for _, f := range p.Funcs {
		p.byKey[funcKey(f)] = f
	}
	if len(p.Funcs) < 50 {
		fatalf("only %d source functions found in %s", len(p.Funcs), modulePath)
	}
	return p
}

// funcKey names a function independent of positions: "(*Stack).Add",
// "NewStack", "(*Stack).compactRange$1".
func funcKey(f *ssa.Function) string {
	if f == nil {
		return "<nil>"
	}
	if f.Parent() != nil {
		return funcKey(f.Parent()) + "$" + strings.TrimPrefix(f.Name(), f.Parent().Name()+"$")
	}
	if a, ok := funcAlias[f]; ok {
		return a // renamed since the reference tree: known to the rules under its reference name
	}
	if recv := f.Signature.Recv(); recv != nil {
		return "(" + types.TypeString(recv.Type(), func(p *types.Package) string {
			if p.Path() == modulePath {
				return ""
			}
			return p.Path()
		}) + ")." + f.Name()
	}
	if f.Pkg != nil && f.Pkg.Pkg.Path() != modulePath {
		return f.Pkg.Pkg.Path() + "." + f.Name()
	}
	return f.Name()
}

// Func returns the in-package function with the given key, or nil.
func (p *Program) Func(key string) *ssa.Function { return p.byKey[key] }

// closureTarget resolves the function a MakeClosure stands for: the closure's
// own body, or - for a bound method value (x.m) - the declared method, which is
// then called with the single binding as its receiver.
func (p *Program) closureTarget(mc *ssa.MakeClosure) (fn *ssa.Function, bound bool) {
	f, _ := mc.Fn.(*ssa.Function)
	if f == nil {
		return nil, false
	}
	if f.Synthetic != "" && strings.HasSuffix(f.Name(), "$bound") {
		if o, ok := f.Object().(*types.Func); ok {
			if df := p.SSA.FuncValue(o); df != nil {
				return df, true
			}
		}
		return nil, true
	}
	return f, false
}

// MustFunc is Func but an unresolved anchor aborts the analysis.
func (p *Program) MustFunc(key string) *ssa.Function {
	f := p.byKey[key]
	if f == nil {
		fatalf("unresolved anchor: function %s not found in %s", key, modulePath)
	}
	return f
}

func (p *Program) pos(pos token.Pos) string {
	if !pos.IsValid() {
		return "-"
	}
	ps := p.Fset.Position(pos)
	return fmt.Sprintf("%s:%d", strings.TrimPrefix(ps.Filename, p.Repo+"/"), ps.Line)
}

// namedType looks up a package-level named type.
func (p *Program) namedType(name string) *types.Named {
	o := p.Main.Types.Scope().Lookup(name)
	if o == nil {
		fatalf("unresolved anchor: type %s", name)
	}
	n, ok := o.Type().(*types.Named)
	if !ok {
		fatalf("unresolved anchor: %s is not a named type", name)
	}
	return n
}
