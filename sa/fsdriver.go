package main

import (
	"fmt"
	"go/token"
	"go/types"
	"os"
	"sort"
	"strconv"
	"strings"

	"golang.org/x/tools/go/ssa"
)

func (c *fsClient) holdsListLock(st *State) bool {
	for _, t := range c.g(st).held {
		if c.kind(st, t) == kListLock {
			return true
		}
	}
	return false
}

func (c *fsClient) BeforeInline(x *Exec, st *State, fr *Frame, site ssa.CallInstruction, callee *ssa.Function, args []*Term) {
	g := c.g(st)
	switch funcKey(callee) {
	case "(*Stack).compactRange":
		g.setFlag("compactFirst", args[1])
		g.setFlag("compactLast", args[2])
		g.setFlag("mergeStarted", nil)
		g.setFlag("compactCommitted", nil)
	case "(*Stack).reload":
		g.setFlag("reloaded", tTrue)
		if g.isSet("commitRenamed") {
			// the list now names the transaction's tables: before anything that can
			// fail runs, the transaction must have stopped treating them as its own
			// to remove (a failing reload would otherwise end in Close deleting them)
			var ks []string
			for k, c := range st.mem {
				if c.addr != nil && c.addr.Op == "field" && strings.HasSuffix(c.addr.Aux, ".newTables") && c.val != nil && c.val.Op == "list" && len(c.val.Args) > 0 {
					ks = append(ks, k)
				}
			}
			sort.Strings(ks)
			key := c.entry + " / committed tables are no longer marked for removal"
			if len(ks) > 0 {
				c.violate(st, "ORDER-DELETE-LAST", key, site.Pos(), "after the list rename the transaction still records its new tables as files to remove while a step that can fail (the reload) runs: if it fails, closing the transaction deletes tables that the committed list names")
			} else {
				c.okay("ORDER-DELETE-LAST", key, "the record of new tables is cleared between the list rename and the reload")
			}
		}
	case "(*Stack).reloadOnce":
		g.setFlag("reloadOnceOK", nil)
	case "(*Stack).readNames":
		g.setFlag("listReadInCall", nil)
	}
}

func (c *fsClient) AfterInline(x *Exec, st *State, fr *Frame, site ssa.CallInstruction, callee *ssa.Function, args []*Term, val *Term) {
	g := c.g(st)
	switch funcKey(callee) {
	case "(*Stack).readNames":
		if val != nil && val.Op == "tuple" && val.Args[1].isNilConst() {
			l := val.Args[0]
			if l.isNilConst() {
				l = tList(true, nil)
			}
			if !g.isSet("listReadInCall") {
				// the names were not read from the file during this call (a cached
				// copy): they say nothing about what other handles have committed
				g.setFlag("lastNames", nil)
				c.note(st, site.Pos(), "names returned without reading LIST in this call")
				break
			}
			g.setFlag("lastNames", l)
			g.setFlag("readAfterCommit", tTrue)
		}
	case "(*Stack).UpToDate":
		if val != nil && val.Op == "tuple" && val.Args[0] == tTrue {
			c.validateFromUpToDate(x, st, site.Pos())
		}
	case "(*Stack).reloadOnce":
		if val != nil && val.isNilConst() {
			g.setFlag("reloadOnceOK", tTrue)
		}
	case "(*Stack).reload":
		if val != nil && val.isNilConst() && c.holdsListLock(st) && g.isSet("reloadOnceOK") {
			g.setFlag("validated", c.currentStack(st))
		}
	case "(*Stack).NextUpdateIndex":
		if g.flag("floor") == nil && val != nil {
			g.setFlag("floor", val)
		}
	case "(*Stack).add":
		if val != nil && val.isNilConst() && g.isSet("listRenamed") {
			g.setFlag("addCommitted", tTrue)
		}
	case "(*Stack).compactRange":
		g.setFlag("compactFirst", nil)
		g.setFlag("compactLast", nil)
		if val != nil && val.Op == "tuple" && val.Args[0] == tTrue && g.isSet("mergeStarted") {
			if g.isSet("compactCommitted") {
				c.okay("COMPACT-PUBLISHES", c.entry+" / a finished merge is published", "compaction reports success only after renaming the new list into place")
			} else {
				c.violate(st, "COMPACT-PUBLISHES", c.entry+" / a finished merge is published", site.Pos(), "compaction reports success after merging (e.g. everything expired or deleted) without replacing the list: the compacted tables stay visible")
			}
		}
	}
}

// validateFromUpToDate sets the validated flag if the true-return of the
// up-to-date check carries the facts that make it mean "names equal":
// equal lengths, and for the generic element of a complete loop over the
// stack the element's name equals the corresponding list entry.
func (c *fsClient) validateFromUpToDate(x *Exec, st *State, pos token.Pos) {
	g := c.g(st)
	cur := c.currentStack(st)
	ln := g.flag("lastNames")
	key := c.entry + " / up-to-date check returns true"
	if cur == nil || ln == nil {
		c.violate(st, "UPTODATE-MEANS-EQUAL", key, pos, "up-to-date check returned true without reading the list")
		return
	}
	lenTerm := func(t *Term) *Term {
		if t.Op == "list" && t.Aux == "exact" {
			return tConst(strconv.Itoa(len(t.Args)), nil)
		}
		return mk("len", "", nil, t)
	}
	lenOK := st.truth(tEq(lenTerm(ln), lenTerm(cur))) == 1
	allOK := false
	// lists built as the image of the current stack (tableNames()-style helpers)
	images := map[string]*Term{}
	for k, cl := range st.mem {
		if strings.HasPrefix(k, "famsrc:") && cl.val == cur {
			images[cl.addr.key] = cl.addr
		}
	}
	for _, img := range images {
		if st.truth(tEq(lenTerm(ln), lenTerm(img))) == 1 || st.truth(tEq(lenTerm(img), lenTerm(ln))) == 1 {
			lenOK = true
		}
	}
	for _, k := range sortedFactKeys(st) {
		v := st.facts[k]
		_ = v
		t := st.fterm[k]
		if t.Op != "eq" || !v {
			continue
		}
		a, b := t.Args[0], t.Args[1]
		for i := 0; i < 2; i++ {
			if a.Op == "len" && b.Op == "len" && a.Args[0] == ln && b.Args[0] == cur {
				lenOK = true
			}
			// an element of an image of the stack compared with the list entry at the same position
			if a.Op == "draw" && a.Args[1].containsOp("loopall") {
				for _, img := range images {
					for _, im := range listMembers(img) {
						if a.Args[0] != im {
							continue
						}
						for _, m := range listMembers(ln) {
							if m == b || (b.Op == "draw" && b.Args[0] == m && b.Args[1] == a.Args[1]) || (m.Op == "anyelem" && b.Op == "elem" && b.Args[0] == m.Args[0] && b.Args[1] == a.Args[1]) {
								allOK = true
							}
						}
					}
				}
			}
			if e, ok := stackElemOfName(a); ok && e.Args[0] == cur && e.Args[1].containsOp("loopall") {
				for _, m := range listMembers(ln) {
					if m == b || (b.Op == "draw" && b.Args[0] == m && b.Args[1] == e.Args[1]) || (m.Op == "anyelem" && b.Op == "elem" && b.Args[0] == m.Args[0] && b.Args[1] == e.Args[1]) {
						allOK = true
					}
				}
			}
			a, b = b, a
		}
	}
	// a stack known to be empty together with equal lengths needs no element facts
	if lenOK && !allOK {
		for _, k := range sortedFactKeys(st) {
			v := st.facts[k]
			_ = v
			t := st.fterm[k]
			if t.Op == "lt" && !v && t.Args[1].Op == "len" && t.Args[1].Args[0] == cur && t.Args[0].Op == "bin" {
				_ = k
			}
		}
	}
	emptyStack := false
	if k, ok := st.constOf(mk("len", "", nil, cur)); ok && k.Aux == "0" {
		emptyStack = true
	}
	if lenOK && (allOK || emptyStack || (ln.Op == "list" && ln.Aux == "exact" && len(ln.Args) == 0)) {
		c.okay("UPTODATE-MEANS-EQUAL", key, "true is returned only when lengths are equal and every table name equals its list entry")
		if c.holdsListLock(st) {
			g.setFlag("validated", cur)
		}
		return
	}
	if os.Getenv("RSA_DEBUG") == "4" {
		fmt.Fprintf(os.Stderr, "UPTODATE fail: cur=%s\n ln=%s\n", cur, ln)
		for _, k := range sortedFactKeys(st) {
			v := st.facts[k]
			_ = v
			if st.fterm[k].Op == "eq" {
				fmt.Fprintf(os.Stderr, "   %s = %v\n", st.fterm[k], v)
			}
		}
	}
	c.violate(st, "UPTODATE-MEANS-EQUAL", key, pos, fmt.Sprintf("the up-to-date check can return true without having compared every table name with the list (lengths compared: %v, all elements compared: %v)", lenOK, allOK))
}

// emptyLoopOnly: the comparison loop was left without any iteration on this
// path (the stack is empty and lengths were equal).
func (c *fsClient) emptyLoopOnly(st *State, cur *Term) bool {
	for k, v := range st.vac {
		if v && strings.Contains(k, "UpToDate") {
			return true
		}
	}
	return false
}

// ---------------------------------------------------------------------------
// driver

type fsRun struct {
	Entry           string
	Paths           int
	States, Forks   int
	Loops, Rounds   int
	Inlined, Merged int
	Funcs           []string
}

// fsEntryPoints finds exported functions and methods of the package from
// which a filesystem call is reachable through static in-package calls.
func fsEntryPoints(p *Program) []*ssa.Function {
	fsCallees := map[string]bool{"os.OpenFile": true, "os.Open": true, "os.Remove": true, "os.Rename": true, "os.Create": true, "os.WriteFile": true,
		"io/ioutil.TempFile": true, "io/ioutil.ReadFile": true, "io/ioutil.ReadDir": true, "io/ioutil.WriteFile": true, "os.CreateTemp": true, "os.ReadFile": true, "os.ReadDir": true,
		"(*os.File).Write": true, "(*os.File).Close": true}
	reach := map[*ssa.Function]bool{}
	changed := true
	for changed {
		changed = false
		for _, f := range p.Funcs {
			if reach[f] {
				continue
			}
			for _, b := range f.Blocks {
				for _, ins := range b.Instrs {
					ci, ok := ins.(ssa.CallInstruction)
					if !ok {
						if mc, ok := ins.(*ssa.MakeClosure); ok && reach[mc.Fn.(*ssa.Function)] {
							reach[f] = true
							changed = true
						}
						continue
					}
					cal := ci.Common().StaticCallee()
					if cal == nil {
						continue
					}
					if fsCallees[funcKey(cal)] || reach[cal] {
						if !reach[f] {
							reach[f] = true
							changed = true
						}
					}
				}
			}
		}
	}
	var eps []*ssa.Function
	for _, f := range p.Funcs {
		if !reach[f] || f.Parent() != nil || !token.IsExported(f.Name()) {
			continue
		}
		if recv := f.Signature.Recv(); recv != nil {
			rt := recv.Type()
			if pt, ok := rt.(*types.Pointer); ok {
				rt = pt.Elem()
			}
			n, ok := rt.(*types.Named)
			if !ok || !n.Obj().Exported() {
				continue
			}
			if n.Obj().Name() != "Stack" {
				continue // Addition methods are analysed through the object protocol
			}
		} else if f.Name() != "NewStack" {
			continue
		}
		eps = append(eps, f)
	}
	return eps
}

func lastErr(fn *ssa.Function, vals []*Term) *Term {
	res := fn.Signature.Results()
	if res.Len() == 0 {
		return nil
	}
	if types.TypeString(res.At(res.Len()-1).Type(), nil) == "error" {
		return vals[len(vals)-1]
	}
	return nil
}

func (c *fsClient) paramTerms(fn *ssa.Function) []*Term {
	var ps []*Term
	for _, p := range fn.Params {
		ps = append(ps, mk("param", funcKey(fn)+"."+p.Name(), p.Type()))
	}
	return ps
}

// exitChecks applies the exit rules to one finished path of an operation.
func (c *fsClient) exitChecks(x *Exec, st *State, entry string, fn *ssa.Function, vals []*Term, final bool, retAddition *Term) {
	g := c.g(st)
	pos := fn.Pos()
	errv := lastErr(fn, vals)
	// PAIR-LOCK
	for _, k := range sortedKeys(g.held) {
		t := g.held[k]
		kind := c.kind(st, t)
		if retAddition != nil && kind == kListLock {
			continue
		}
		c.violate(st, "PAIR-LOCK", entry+" / "+kind+" still held at exit", pos, fmt.Sprintf("operation returns while still owning lock file %s (%s): later writers are blocked for ever", kind, t))
	}
	if len(g.held) == 0 || retAddition != nil {
		c.okay("PAIR-LOCK", entry+" / exits", "no lock owned at any exit")
	}
	// PAIR-TMP
	for _, k := range sortedKeys(g.tmps) {
		c.violate(st, "PAIR-TMP", entry+" / temp file left at exit", pos, fmt.Sprintf("operation returns leaving temporary file %s behind", g.tmps[k]))
	}
	if len(g.tmps) == 0 {
		c.okay("PAIR-TMP", entry+" / exits", "no temporary file left at any exit")
	}
	if final {
		for _, k := range sortedKeys(g.inplace) {
			c.violate(st, "FAIL-NO-EFFECT", entry+" / unlisted new table left in place", pos, fmt.Sprintf("operation ends with new table %s renamed into place but neither listed nor removed", g.inplace[k]))
		}
		if len(g.inplace) == 0 {
			c.okay("FAIL-NO-EFFECT", entry+" / exits", "no unlisted new table left behind")
		}
	}
	// STALE-NO-RESIDUE: a write refused with ErrLockFailure leaves the directory unchanged
	if errv != nil && errv.Op == "gval" && errv.Aux == "ErrLockFailure" {
		if len(g.held) > 0 || len(g.tmps) > 0 || len(g.inplace) > 0 {
			what := "a temporary file"
			for _, k := range sortedKeys(g.held) {
				what = "lock file " + c.kind(st, g.held[k])
			}
			c.violate(st, "STALE-NO-RESIDUE", entry+" / refused write leaves files behind", pos, "the operation returns ErrLockFailure but leaves "+what+" in the directory: the directory is changed and the retry (and every other writer) fails")
		} else {
			c.okay("STALE-NO-RESIDUE", entry+" / ErrLockFailure exits", "nothing is owned when ErrLockFailure is returned")
		}
	}
	// POST-COMMIT-OK / STALE-RELOAD for Stack.Add
	if entry == "(*Stack).Add" && errv != nil {
		if g.isSet("addCommitted") || g.isSet("commitRenamed") {
			if st.truth(tEq(errv, tNil)) == 1 {
				c.okay("POST-COMMIT-OK", entry+" / committed", "a committed Add returns nil")
			} else {
				c.violate(st, "POST-COMMIT-OK", entry+" / committed Add returns an error", pos, fmt.Sprintf("the transaction was committed (list renamed) but Add returns %s", errv))
			}
		}
		if errv.Op == "gval" && errv.Aux == "ErrLockFailure" {
			if g.isSet("reloaded") {
				c.okay("STALE-RELOAD", entry+" / ErrLockFailure", "every ErrLockFailure return passes through reload")
			} else {
				c.violate(st, "STALE-RELOAD", entry+" / ErrLockFailure without reload", pos, "Add returns ErrLockFailure without refreshing the handle")
			}
		}
		if st.truth(tEq(errv, tNil)) == 1 && !g.isSet("listRenamed") && !g.isSet("emptyTx") {
			// nil without commit is only allowed for the empty transaction; tracked by events
		}
	}
	// EXPIRY-APPLIED: an operation that is handed a log expiry policy (non-nil on
	// this path) and a non-empty stack reports success only after it has
	// published a rewritten table: the policy of *this* call is what was applied
	for _, pa := range fn.Params {
		pt, ok := pa.Type().(*types.Pointer)
		if !ok {
			continue
		}
		if n, ok := pt.Elem().(*types.Named); !ok || n.Obj().Name() != "LogExpirationConfig" {
			continue
		}
		if errv == nil || st.truth(tEq(errv, tNil)) != 1 {
			continue
		}
		exp := mk("param", funcKey(fn)+"."+pa.Name(), pa.Type())
		root := g.flag("stackRoot")
		if root == nil || st.truth(tEq(exp, tNil)) != 0 {
			continue
		}
		init0 := mk("init", "", nil, mk("field", "Stack.stack", nil, root))
		nonEmpty := st.truth(tLt(tConst("0", nil), mk("len", "", types.Typ[types.Int], init0)))
		if nonEmpty == 0 {
			continue
		}
		key := entry + " / an expiring compaction of a non-empty stack rewrites it"
		if g.isSet("lockAttempt") && !g.isSet("listRenamed") {
			// gave up under the lock protocol (lock busy, stale handle): the
			// multi-handle outcome "nothing done, no error" is not this rule's subject
			continue
		}
		if g.isSet("listRenamed") {
			c.okay("EXPIRY-APPLIED", key, "success with a non-nil expiry policy => the list was replaced on this path")
		} else {
			c.violate(st, "EXPIRY-APPLIED", key, pos, "the operation is given a log expiry policy and a stack that is not known to be empty, and reports success on a path that neither rewrote the tables nor contended for a lock: entries the policy expires survive (for instance when an earlier call's result is taken to cover this one)")
		}
	}
	// READER-OWN
	cur := c.currentStack(st)
	if cur != nil {
		for _, k := range sortedKeys(g.closedRd) {
			r := g.closedRd[k]
			if c.inStack(st, r, cur) {
				c.violate(st, "READER-OWN", entry+" / closed reader stays in the stack", pos, fmt.Sprintf("reader %s was closed on this path but is still part of the handle's stack at exit", r))
			}
		}
		c.okay("READER-OWN", entry+" / exits", "no closed reader remains in the stack")
	}
	// MERGED-FRESH
	if (errv == nil || st.truth(tEq(errv, tNil)) == 1) && !g.isSet("opFailed") {
		if sv := g.flag("stackStored"); sv != nil && !sv.isNilConst() {
			c.mergedFresh(x, st, entry, pos)
		}
	}
}

func (c *fsClient) inStack(st *State, r, cur *Term) bool {
	if cur.Op == "list" {
		for _, m := range cur.Args {
			if m == r {
				return true
			}
		}
		return false
	}
	if cur.isNilConst() {
		return false
	}
	// opaque slice: r is one of its elements (or an instance of one)
	base := r
	for base.Op == "inst" || base.Op == "draw" {
		base = base.Args[0]
	}
	return base.Op == "elem" && base.Args[0] == cur
}

func (c *fsClient) mergedFresh(x *Exec, st *State, entry string, pos token.Pos) {
	g := c.g(st)
	root := g.flag("stackRoot")
	cur := c.currentStack(st)
	key := entry + " / merged view matches the stack"
	mv := x.load(st, mk("field", "Stack.merged", nil, root), nil)
	tabs, ok := g.mergedOf[mv.key]
	if !ok {
		c.violate(st, "MERGED-FRESH", key, pos, "the handle's stack was replaced but its merged view was not rebuilt")
		return
	}
	same := func(a, b *Term) bool {
		ma, mb := listMembers(a), listMembers(b)
		for i := range ma {
			ma[i] = undraw(ma[i])
		}
		mb = append([]*Term{}, mb...)
		for i := range mb {
			mb[i] = undraw(mb[i])
		}
		sa := map[string]bool{}
		for _, m := range ma {
			sa[m.key] = true
		}
		if len(sa) != len(mb) {
			uniq := map[string]bool{}
			for _, m := range mb {
				uniq[m.key] = true
			}
			if len(uniq) != len(sa) {
				return false
			}
		}
		for _, m := range mb {
			if !sa[m.key] {
				return false
			}
		}
		return true
	}
	if !same(tabs, cur) {
		c.violate(st, "MERGED-FRESH", key, pos, fmt.Sprintf("merged view built from %s but the stack is %s", tabs, cur))
		return
	}
	if sd := x.load(st, mk("field", "Merged.suppressDeletions", nil, mv), types.Typ[types.Bool]); sd != tTrue {
		c.violate(st, "MERGED-FRESH", entry+" / stack view suppresses deletions", pos, "the handle's merged view does not hide deletion records")
		return
	}
	c.okay("MERGED-FRESH", key, "merged view rebuilt from the stored stack with deletions suppressed")
}

func (c *fsClient) freshState(root *Term) *State {
	g := newFsGhost()
	g.setFlag("stackRoot", root)
	return newState(g)
}

// runEntry analyses one entry point from a fresh state.
func (c *fsClient) runEntry(fn *ssa.Function, runs *[]fsRun) {
	c.entry = funcKey(fn)
	x := newExec(c.p, c)
	x.NormSubslice = true
	x.Comprehend = true
	x.FlagExits = true
	ps := c.paramTerms(fn)
	var root *Term
	if len(ps) > 0 {
		root = ps[0]
	} else {
		root = mk("param", "none", nil)
	}
	st := c.freshState(root)
	res := x.RunFunc(fn, ps, nil, st, "", 0)
	retSet := map[string]*Term{}
	for _, r := range res {
		if r.Panic {
			continue
		}
		if e := lastErr(fn, r.Vals); e != nil {
			retSet[e.key] = e
		}
		var retAdd *Term
		if c.entry == "(*Stack).NewAddition" && len(r.Vals) > 0 && !r.Vals[0].isNilConst() {
			retAdd = r.Vals[0]
		}
		if c.entry == "NewStack" && len(r.Vals) > 0 && !r.Vals[0].isNilConst() {
			c.g(r.St).setFlag("stackRoot", r.Vals[0])
		}
		c.exitChecks(x, r.St, c.entry, fn, r.Vals, retAdd == nil, retAdd)
	}
	if c.summaries == nil {
		c.summaries = map[string][]*Term{}
	}
	for _, k := range sortedKeys(retSet) {
		c.summaries[c.entry] = append(c.summaries[c.entry], retSet[k])
	}
	*runs = append(*runs, c.runStats(x, c.entry, len(res)))
}

func (c *fsClient) runStats(x *Exec, entry string, paths int) fsRun {
	var fs []string
	for f := range x.FuncsSeen {
		fs = append(fs, f)
	}
	sort.Strings(fs)
	return fsRun{Entry: entry, Paths: paths, States: x.NStates, Forks: x.NForks, Loops: x.NLoops, Rounds: x.NRounds, Inlined: x.NInlined, Merged: x.NMerged, Funcs: fs}
}

// runProtocol analyses the public Addition protocol:
// NewAddition ; Add{0,1,2} ; (Commit)? ; Close.
func (c *fsClient) runProtocol(runs *[]fsRun) {
	newAdd := c.p.MustFunc("(*Stack).NewAddition")
	add := c.p.MustFunc("(*Addition).Add")
	commit := c.p.MustFunc("(*Addition).Commit")
	closeF := c.p.MustFunc("(*Addition).Close")
	c.entry = "Addition protocol"
	x := newExec(c.p, c)
	x.NormSubslice = true
	x.Comprehend = true
	x.FlagExits = true
	stp := mk("param", "(*Stack).NewAddition.st", newAdd.Params[0].Type())
	wr := mk("param", "(*Addition).Add.write", add.Params[1].Type())
	st0 := c.freshState(stp)
	paths := 0
	type pst struct {
		st *State
		tr *Term
	}
	var live []pst
	for _, r := range x.RunFunc(newAdd, []*Term{stp}, nil, st0, "", 0) {
		if r.Panic {
			continue
		}
		if r.Vals[0].isNilConst() {
			c.entry = "Addition protocol: NewAddition fails"
			c.exitChecks(x, r.St, c.entry, newAdd, r.Vals, true, nil)
			c.entry = "Addition protocol"
			paths++
			continue
		}
		live = append(live, pst{r.St, r.Vals[0]})
	}
	finish := func(label string, s pst, doCommit bool) {
		states := []*State{s.st}
		if doCommit {
			var next []*State
			for _, st := range states {
				for _, r := range x.RunFunc(commit, []*Term{s.tr}, nil, st.clone(), "commit", 0) {
					if !r.Panic {
						r.St.note(commit.Pos(), "Commit returns %s", r.Vals[0])
						if r.St.truth(tEq(r.Vals[0], tNil)) != 1 {
							c.g(r.St).setFlag("opFailed", tTrue)
						}
						next = append(next, r.St)
					}
				}
			}
			states = next
		}
		for _, st := range states {
			for _, r := range x.RunFunc(closeF, []*Term{s.tr}, nil, st.clone(), "close", 0) {
				if r.Panic {
					continue
				}
				c.entry = "Addition protocol: " + label
				c.exitChecks(x, r.St, c.entry, closeF, r.Vals, true, nil)
				c.entry = "Addition protocol"
				paths++
			}
		}
	}
	for _, s := range live {
		finish("NewAddition;Close", s, false)
		finish("NewAddition;Commit;Close", s, true)
		for _, r1 := range x.RunFunc(add, []*Term{s.tr, wr}, nil, s.st.clone(), "add1", 0) {
			if r1.Panic {
				continue
			}
			s1 := pst{r1.St, s.tr}
			ok1 := r1.St.truth(tEq(r1.Vals[0], tNil)) == 1
			if !ok1 {
				finish("NewAddition;Add(fails);Close", s1, false)
				continue
			}
			finish("NewAddition;Add;Close", s1, false)
			finish("NewAddition;Add;Commit;Close", s1, true)
			for _, r2 := range x.RunFunc(add, []*Term{s.tr, wr}, nil, r1.St.clone(), "add2", 0) {
				if r2.Panic {
					continue
				}
				s2 := pst{r2.St, s.tr}
				if r2.St.truth(tEq(r2.Vals[0], tNil)) != 1 {
					finish("NewAddition;Add;Add(fails);Close", s2, false)
					continue
				}
				finish("NewAddition;Add;Add;Commit;Close", s2, true)
				finish("NewAddition;Add;Add;Close", s2, false)
			}
		}
	}
	*runs = append(*runs, c.runStats(x, "Addition protocol", paths))
}
