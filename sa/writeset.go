package main

import (
	"go/token"
	"go/types"

	"golang.org/x/tools/go/ssa"
)

// Field-sensitive may-write summaries: for every in-package function, which
// fields of the objects its pointer parameters point to may be written
// (directly or through callees).  "*" stands for the whole object.  Used to
// decide what an opaque or event call invalidates in the simulator.

type writeSets struct {
	p    *Program
	cg   *callGraph
	sets map[*ssa.Function]map[int]map[string]bool
}

var writeSetCache *writeSets

func getWriteSets(p *Program) *writeSets {
	if writeSetCache != nil && writeSetCache.p == p {
		return writeSetCache
	}
	ws := &writeSets{p: p, cg: buildCallGraph(p), sets: map[*ssa.Function]map[int]map[string]bool{}}
	ws.compute()
	writeSetCache = ws
	return ws
}

// rootParam walks an address / value up to a parameter; it returns the
// parameter index and the first field applied to it ("*" if none).
func rootParam(f *ssa.Function, v ssa.Value, depth int) (int, string, bool) {
	first := "*"
	for depth < 20 {
		depth++
		switch a := v.(type) {
		case *ssa.Parameter:
			for i, p := range f.Params {
				if p == a {
					return i, first, true
				}
			}
			return 0, "", false
		case *ssa.FieldAddr:
			first = fieldAux(a.X.Type().Underlying().(*types.Pointer).Elem(), a.Field)
			v = a.X
		case *ssa.IndexAddr:
			v = a.X
		case *ssa.UnOp:
			if a.Op != token.MUL {
				return 0, "", false
			}
			v = a.X
		case *ssa.Slice:
			v = a.X
		case *ssa.ChangeType:
			v = a.X
		case *ssa.MakeInterface:
			v = a.X
		case *ssa.ChangeInterface:
			v = a.X
		case *ssa.TypeAssert:
			v = a.X
		case *ssa.Extract:
			if ta, ok := a.Tuple.(*ssa.TypeAssert); ok {
				v = ta.X
			} else {
				return 0, "", false
			}
		case *ssa.Phi:
			for _, e := range a.Edges {
				if i, fl, ok := rootParam(f, e, depth); ok {
					return i, fl, true
				}
			}
			return 0, "", false
		default:
			return 0, "", false
		}
	}
	return 0, "", false
}

func (ws *writeSets) add(f *ssa.Function, i int, field string) bool {
	if ws.sets[f] == nil {
		ws.sets[f] = map[int]map[string]bool{}
	}
	if ws.sets[f][i] == nil {
		ws.sets[f][i] = map[string]bool{}
	}
	if ws.sets[f][i][field] {
		return false
	}
	ws.sets[f][i][field] = true
	return true
}

func (ws *writeSets) targets(c *ssa.CallCommon) ([]*ssa.Function, bool) {
	if c.IsInvoke() {
		if fs, ok := ws.cg.impls[c.Method.FullName()]; ok {
			return fs, true
		}
		return nil, false
	}
	if g := c.StaticCallee(); g != nil {
		if g.Pkg == ws.p.Pkg && g.Blocks != nil {
			return []*ssa.Function{g}, true
		}
		return nil, false
	}
	return nil, false
}

func (ws *writeSets) compute() {
	changed := true
	for changed {
		changed = false
		for _, f := range ws.p.Funcs {
			for _, b := range f.Blocks {
				for _, ins := range b.Instrs {
					switch ins := ins.(type) {
					case *ssa.Store:
						if i, fl, ok := rootParam(f, ins.Addr, 0); ok {
							changed = ws.add(f, i, fl) || changed
						}
					case *ssa.MapUpdate:
						if i, fl, ok := rootParam(f, ins.Map, 0); ok {
							changed = ws.add(f, i, fl) || changed
						}
					case ssa.CallInstruction:
						c := ins.Common()
						if bi, ok := c.Value.(*ssa.Builtin); ok {
							if (bi.Name() == "copy" || bi.Name() == "delete") && len(c.Args) > 0 {
								if i, fl, ok := rootParam(f, c.Args[0], 0); ok {
									changed = ws.add(f, i, fl) || changed
								}
							}
							continue
						}
						args := c.Args
						if c.IsInvoke() {
							args = append([]ssa.Value{c.Value}, c.Args...)
						}
						tg, known := ws.targets(c)
						for ai, a := range args {
							i, fl, ok := rootParam(f, a, 0)
							if !ok {
								continue
							}
							if !known {
								// external or dynamic callee: may write through any pointer-like argument
								switch a.Type().Underlying().(type) {
								case *types.Pointer, *types.Slice, *types.Map, *types.Interface:
									if !readOnlyExternalCall(c, ai) {
										changed = ws.add(f, i, fl) || changed
									}
								}
								continue
							}
							for _, g := range tg {
								for gf := range ws.sets[g][ai] {
									nf := fl
									if fl == "*" {
										nf = gf
									}
									changed = ws.add(f, i, nf) || changed
								}
							}
						}
					}
				}
			}
		}
	}
}

// readOnlyExternalCall: external callees known not to write through argument ai.
func readOnlyExternalCall(c *ssa.CallCommon, ai int) bool {
	g := c.StaticCallee()
	if g == nil {
		return false
	}
	switch funcKey(g) {
	case "fmt.Errorf", "fmt.Sprintf", "fmt.Sprint", "bytes.Compare", "bytes.Equal", "bytes.NewBuffer", "hash/crc32.ChecksumIEEE", "strings.Join",
		"strings.HasPrefix", "strings.HasSuffix", "strings.Split", "sort.SearchStrings", "log.Panicf", "log.Printf", "path/filepath.Join", "os.IsExist", "os.IsNotExist",
		"(encoding/binary.bigEndian).Uint16", "(encoding/binary.bigEndian).Uint32", "(encoding/binary.bigEndian).Uint64", "reflect.DeepEqual":
		return true
	}
	return false
}

// writtenFields returns the fields that a call may write through argument ai
// (nil: nothing; {"*"}: anything).
func (ws *writeSets) writtenFields(callee *ssa.Function, c *ssa.CallCommon, ai int) map[string]bool {
	if callee != nil && callee.Pkg == ws.p.Pkg && callee.Blocks != nil {
		return ws.sets[callee][ai]
	}
	if c != nil {
		if tg, known := ws.targets(c); known {
			res := map[string]bool{}
			for _, g := range tg {
				for f := range ws.sets[g][ai] {
					res[f] = true
				}
			}
			return res
		}
		if readOnlyExternalCall(c, ai) {
			return nil
		}
	}
	return map[string]bool{"*": true}
}
