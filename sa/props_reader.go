package main

import (
	"fmt"
	"go/token"
	"go/types"
	"sort"
	"strings"

	"golang.org/x/tools/go/ssa"
)

// Reader robustness (C18 a/b, parts of C11 and C16):
//   panicreach   explicit panics reachable from the read API vs. a frozen allow-table
//   nilcontract  results that may be nil together with a nil error must be
//                checked before they are dereferenced or wrapped
//   EMPTY-STACK  first/last element of a stack slice only under a non-emptiness guard

// readRootsWithOpen: read roots plus the constructors that parse table bytes.
func hostileRoots(p *Program, cg *callGraph) []*ssa.Function {
	roots := readRoots(p, cg)
	roots = append(roots, p.MustFunc("NewReader"))
	return roots
}

type panicSite struct {
	fn   *ssa.Function
	pos  token.Pos
	kind string // "panic", "log.Panicf", "assert"
	desc string
}

func panicSites(f *ssa.Function) []panicSite {
	var res []panicSite
	for _, b := range f.Blocks {
		for _, ins := range b.Instrs {
			switch ins := ins.(type) {
			case *ssa.Panic:
				d := "panic"
				if mi, ok := ins.X.(*ssa.MakeInterface); ok {
					if c, ok := mi.X.(*ssa.Const); ok && c.Value != nil {
						d = "panic(" + c.Value.ExactString() + ")"
					}
				}
				res = append(res, panicSite{f, ins.Pos(), "panic", d})
			case *ssa.TypeAssert:
				if !ins.CommaOk {
					res = append(res, panicSite{f, ins.Pos(), "assert", "unchecked type assertion to " + types.TypeString(ins.AssertedType, func(*types.Package) string { return "" })})
				}
			case ssa.CallInstruction:
				if cal := ins.Common().StaticCallee(); cal != nil {
					k := funcKey(cal)
					if strings.HasPrefix(k, "log.Panic") || strings.HasPrefix(k, "log.Fatal") || k == "os.Exit" {
						d := k
						if len(ins.Common().Args) > 0 {
							if c, ok := ins.Common().Args[0].(*ssa.Const); ok && c.Value != nil {
								d += "(" + c.Value.ExactString() + ")"
							}
						}
						res = append(res, panicSite{f, ins.Pos(), k, d})
					}
				}
			}
		}
	}
	return res
}

// allowedPanics: function -> kind -> reason.  API misuse by the caller, never table bytes.
var allowedPanics = map[string]map[string]string{
	"(*tableIter).Next":            {"log.Panicf": "record kind passed by the caller does not match the iterator's section (API misuse, e.g. NextLog on a ref iterator); that the iterator's block is of the requested section is re-verified by DT-DESCEND"},
	"(*filteringRefIterator).Next": {"assert": "caller passed a non-ref record to a RefsFor iterator (API misuse)"},
	"(*indexedTableRefIter).Next":  {"assert": "caller passed a non-ref record to a RefsFor iterator (API misuse)"},
	"(*RefRecord).copyFrom":        {"assert": "records of one merged iterator all have the iterator's kind (created by newRecord(it.typ))"},
	"(*LogRecord).copyFrom":        {"assert": "records of one merged iterator all have the iterator's kind"},
	"(*objRecord).copyFrom":        {"assert": "records of one merged iterator all have the iterator's kind"},
	"(*indexRecord).copyFrom":      {"assert": "records of one merged iterator all have the iterator's kind"},
	"newRecord":                    {"panic": "re-verified: every in-package call passes the constant empty key, so the log-key decoder is never entered"},
	"(HashID).Size":                {"panic": "re-verified: every reachable caller first compares the hash id with the known ids and only then asks for its size"},
	"NewReader":                    {"log.Panicf": "footer buffer has bytes left only if a BlockSource returns more than requested; both in-package sources return at most the requested length"},
}

func checkPanicReach(p *Program, r *Report, reach map[*ssa.Function]bool) {
	var fns []*ssa.Function
	for f := range reach {
		fns = append(fns, f)
	}
	sort.Slice(fns, func(i, j int) bool { return funcKey(fns[i]) < funcKey(fns[j]) })
	n := 0
	for _, f := range fns {
		for _, s := range panicSites(f) {
			n++
			fk := funcKey(f)
			key := fk + " / " + s.desc
			if why, ok := allowedPanics[fk][s.kind]; ok {
				if fk == "newRecord" {
					// re-verify: all callers pass the constant ""
					okAll := true
					for _, g := range p.Funcs {
						for _, b := range g.Blocks {
							for _, ins := range b.Instrs {
								if ci, ok := ins.(ssa.CallInstruction); ok && ci.Common().StaticCallee() == f {
									c, isC := ci.Common().Args[1].(*ssa.Const)
									if !isC || c.Value == nil || c.Value.ExactString() != `""` {
										okAll = false
									}
								}
							}
						}
					}
					if !okAll {
						r.violate("PANIC-REACH", key, p.pos(s.pos), "newRecord is called with a non-constant key: its panic on a malformed log key becomes reachable from table bytes", nil)
						continue
					}
				}
				if fk == "(HashID).Size" {
					if bad := unvalidatedHashSize(p, f, reach); bad != "" {
						r.violate("PANIC-REACH", key, p.pos(s.pos), "HashID.Size() panics on an unknown id and is called in "+bad+" on a value that was not compared with the known hash ids first; in the reader that value comes from table bytes", nil)
						continue
					}
				}
				r.ok("PANIC-REACH", key, "allowed: "+why)
				continue
			}
			r.violate("PANIC-REACH", key, p.pos(s.pos), fmt.Sprintf("%s in %s is reachable from the read API and is not in the allow-table: the value it tests comes from table bytes, so damaged input crashes the process instead of returning an error", s.desc, fk), nil)
		}
	}
	r.floor("PANIC-REACH", n, 5, "explicit panic sites reachable from the read API")
}

// sameAddr: two address values denote the same access path.
func sameAddr(a, b ssa.Value) bool {
	if a == b {
		return true
	}
	fa, ok1 := a.(*ssa.FieldAddr)
	fb, ok2 := b.(*ssa.FieldAddr)
	if ok1 && ok2 {
		return fa.Field == fb.Field && sameAddr(fa.X, fb.X)
	}
	return false
}

// unvalidatedHashSize returns the name of a reachable caller that calls
// size on a hash id without a dominating comparison with a known id.
func unvalidatedHashSize(p *Program, size *ssa.Function, reach map[*ssa.Function]bool) string {
	for g := range reach {
		for _, b := range g.Blocks {
			for _, ins := range b.Instrs {
				ci, ok := ins.(ssa.CallInstruction)
				if !ok || ci.Common().StaticCallee() != size {
					continue
				}
				recv := ci.Common().Args[0]
				ld, ok := recv.(*ssa.UnOp)
				if !ok {
					return funcKey(g)
				}
				guarded := false
				for _, b2 := range g.Blocks {
					iff, ok := b2.Instrs[len(b2.Instrs)-1].(*ssa.If)
					if !ok {
						continue
					}
					bo, ok := iff.Cond.(*ssa.BinOp)
					if !ok || bo.Op != token.EQL {
						continue
					}
					for _, pair := range [][2]ssa.Value{{bo.X, bo.Y}, {bo.Y, bo.X}} {
						l1, ok1 := pair[0].(*ssa.UnOp)
						l2, ok2 := pair[1].(*ssa.UnOp)
						if !ok1 || !ok2 {
							continue
						}
						if _, isG := l2.X.(*ssa.Global); isG && sameAddr(l1.X, ld.X) && b2.Succs[0].Dominates(b) {
							guarded = true
						}
					}
				}
				if !guarded {
					return funcKey(g)
				}
			}
		}
	}
	return ""
}

// ---------------------------------------------------------------------------
// nilcontract

func isPtrLike(t types.Type) bool {
	switch t.Underlying().(type) {
	case *types.Pointer:
		return true
	}
	return false
}

func errIdx(sig *types.Signature) int {
	res := sig.Results()
	if res.Len() > 0 && types.TypeString(res.At(res.Len()-1).Type(), nil) == "error" {
		return res.Len() - 1
	}
	return -1
}

// maybeNilErr: the error value returned may be nil (anything but a value
// known to be a non-nil error).
func maybeNilErr(v ssa.Value) bool {
	switch v := v.(type) {
	case *ssa.Const:
		return v.Value == nil
	case *ssa.Call:
		if cal := v.Call.StaticCallee(); cal != nil {
			k := funcKey(cal)
			if k == "fmt.Errorf" || k == "errors.New" {
				return false
			}
		}
	case *ssa.UnOp:
		if g, ok := v.X.(*ssa.Global); ok && v.Op == token.MUL && strings.Contains(strings.ToLower(g.Name()), "err") {
			return false // package-level error values are initialised non-nil
		}
	case *ssa.Phi:
		for _, e := range v.Edges {
			if maybeNilErr(e) {
				return true
			}
		}
		return false
	}
	return true
}

// errGuardedNonNil: the returned error is known non-nil in block b because a
// dominating branch tested it (or another load of the same local) against nil.
func errGuardedNonNil(v ssa.Value, b *ssa.BasicBlock) bool {
	if nonNilGuarded(v, b) {
		return true
	}
	ld, ok := v.(*ssa.UnOp)
	if !ok || ld.Op != token.MUL {
		return false
	}
	refs := ld.X.Referrers()
	if refs == nil {
		return false
	}
	for _, ref := range *refs {
		if l2, ok := ref.(*ssa.UnOp); ok && l2.Op == token.MUL && l2 != ld && nonNilGuarded(l2, b) {
			return true
		}
	}
	// the same access path written out again (x.err tested, x.err returned)
	if _, isFA := ld.X.(*ssa.FieldAddr); isFA {
		for _, bb := range b.Parent().Blocks {
			for _, ins := range bb.Instrs {
				if l2, ok := ins.(*ssa.UnOp); ok && l2.Op == token.MUL && l2 != ld && sameAddr(l2.X, ld.X) && nonNilGuarded(l2, b) {
					return true
				}
			}
		}
	}
	return false
}

type nilAnalysis struct {
	p       *Program
	nilable map[*ssa.Function]map[int]bool
}

func (na *nilAnalysis) valueNilable(v ssa.Value, seen map[ssa.Value]bool) bool {
	if seen[v] {
		return false
	}
	seen[v] = true
	switch v := v.(type) {
	case *ssa.Const:
		return v.Value == nil
	case *ssa.Phi:
		for _, e := range v.Edges {
			if na.valueNilable(e, seen) {
				return true
			}
		}
	case *ssa.Extract:
		if c, ok := v.Tuple.(*ssa.Call); ok {
			if cal := c.Call.StaticCallee(); cal != nil && na.nilable[cal][v.Index] {
				return true
			}
		}
	case *ssa.Call:
		if cal := v.Call.StaticCallee(); cal != nil && na.nilable[cal][0] {
			return true
		}
	}
	return false
}

// nonNilOnEdge: is v known non-nil in block u thanks to a dominating test?
func nonNilGuarded(v ssa.Value, u *ssa.BasicBlock) bool {
	fn := u.Parent()
	for _, b := range fn.Blocks {
		iff, ok := b.Instrs[len(b.Instrs)-1].(*ssa.If)
		if !ok {
			continue
		}
		bo, ok := iff.Cond.(*ssa.BinOp)
		if !ok || (bo.Op != token.EQL && bo.Op != token.NEQ) {
			continue
		}
		var other ssa.Value
		if bo.X == v {
			other = bo.Y
		} else if bo.Y == v {
			other = bo.X
		} else {
			continue
		}
		if !isNilConst(other) {
			continue
		}
		nonNilSucc := b.Succs[0]
		if bo.Op == token.EQL {
			nonNilSucc = b.Succs[1]
		}
		if len(nonNilSucc.Preds) == 1 && nonNilSucc.Dominates(u) {
			return true
		}
	}
	return false
}

func checkNilContract(p *Program, r *Report, reach map[*ssa.Function]bool) {
	na := &nilAnalysis{p: p, nilable: map[*ssa.Function]map[int]bool{}}
	// 1. which results may be nil together with a nil error
	changed := true
	for changed {
		changed = false
		for _, f := range p.Funcs {
			ei := errIdx(f.Signature)
			for _, b := range f.Blocks {
				ret, ok := b.Instrs[len(b.Instrs)-1].(*ssa.Return)
				if !ok {
					continue
				}
				if ei >= 0 && (!maybeNilErr(ret.Results[ei]) || errGuardedNonNil(ret.Results[ei], b)) {
					continue
				}
				for i, res := range ret.Results {
					if i == ei || !isPtrLike(res.Type()) {
						continue
					}
					if na.valueNilable(res, map[ssa.Value]bool{}) && !nonNilGuarded(res, b) {
						if na.nilable[f] == nil {
							na.nilable[f] = map[int]bool{}
						}
						if !na.nilable[f][i] {
							na.nilable[f][i] = true
							changed = true
						}
					}
				}
			}
		}
	}
	var nf []string
	for f := range na.nilable {
		nf = append(nf, funcKey(f))
	}
	sort.Strings(nf)
	r.Stats["nilable_functions"] = nf
	// 2. every use of a nilable result in reachable code is guarded
	sites := 0
	var fns []*ssa.Function
	for f := range reach {
		fns = append(fns, f)
	}
	sort.Slice(fns, func(i, j int) bool { return funcKey(fns[i]) < funcKey(fns[j]) })
	for _, f := range fns {
		for _, b := range f.Blocks {
			for _, ins := range b.Instrs {
				var v ssa.Value
				var callee *ssa.Function
				switch x := ins.(type) {
				case *ssa.Extract:
					if c, ok := x.Tuple.(*ssa.Call); ok {
						if cal := c.Call.StaticCallee(); cal != nil && na.nilable[cal][x.Index] {
							v, callee = x, cal
						}
					}
				}
				if v == nil {
					continue
				}
				sites++
				key := funcKey(f) + " / result of " + funcKey(callee)
				bad := ""
				var badPos token.Pos
				for _, ref := range *v.Referrers() {
					ub := ref.Block()
					if ub == nil {
						continue
					}
					deref := ""
					switch u := ref.(type) {
					case *ssa.FieldAddr:
						if u.X == v {
							deref = "field access"
						}
					case *ssa.UnOp:
						if u.Op == token.MUL && u.X == v {
							deref = "dereference"
						}
					case ssa.CallInstruction:
						c := u.Common()
						if !c.IsInvoke() && len(c.Args) > 0 && c.Args[0] == v && c.StaticCallee() != nil && c.StaticCallee().Signature.Recv() != nil {
							deref = "method call " + c.StaticCallee().Name()
						}
						// handed to an in-package function that dereferences the parameter unguarded
						if g := c.StaticCallee(); g != nil && g.Pkg == p.Pkg && deref == "" {
							for k, a := range c.Args {
								if a == v && k < len(g.Params) && paramDerefUnguarded(g.Params[k]) {
									deref = "argument of " + funcKey(g) + ", which dereferences it without a nil check"
								}
							}
						}
					case *ssa.MakeInterface:
						deref = "conversion to an interface (a typed nil that callers cannot detect)"
					case *ssa.Store:
						if u.Val == v {
							deref = "store into a longer-lived object"
						}
					}
					if deref != "" && !nonNilGuarded(v, ub) {
						bad = deref
						badPos = ref.Pos()
					}
				}
				if bad != "" {
					r.violate("NIL-CONTRACT", key, p.pos(badPos), fmt.Sprintf("%s may return nil without an error; its result is used (%s) in %s without a nil check", funcKey(callee), bad, funcKey(f)), nil)
				} else {
					r.ok("NIL-CONTRACT", key, "every use is under a dominating nil check or returns the value")
				}
			}
		}
	}
	r.floor("NIL-CONTRACT", sites, 6, "call sites of functions that may return nil without an error")
}

// paramDerefUnguarded: the parameter is dereferenced (field access, load,
// method call on it) somewhere in its function without a dominating nil check.
func paramDerefUnguarded(pa *ssa.Parameter) bool {
	for _, ref := range *pa.Referrers() {
		ub := ref.Block()
		if ub == nil {
			continue
		}
		is := false
		switch u := ref.(type) {
		case *ssa.FieldAddr:
			is = u.X == pa
		case *ssa.UnOp:
			is = u.Op == token.MUL && u.X == pa
		case ssa.CallInstruction:
			c := u.Common()
			is = !c.IsInvoke() && len(c.Args) > 0 && c.Args[0] == pa && c.StaticCallee() != nil && c.StaticCallee().Signature.Recv() != nil
		}
		if is && !nonNilGuarded(pa, ub) {
			return true
		}
	}
	return false
}

// ---------------------------------------------------------------------------
// EMPTY-STACK: s[0] / s[len(s)-1] on a stack slice needs a non-emptiness guard

func checkEmptyStack(p *Program, r *Report) {
	isStackField := func(v ssa.Value) bool {
		ld, ok := v.(*ssa.UnOp)
		if !ok || ld.Op != token.MUL {
			return false
		}
		fa, ok := ld.X.(*ssa.FieldAddr)
		if !ok {
			return false
		}
		pt, ok := fa.X.Type().Underlying().(*types.Pointer)
		if !ok {
			return false
		}
		n, ok := pt.Elem().(*types.Named)
		if !ok || (n.Obj().Name() != "Stack" && n.Obj().Name() != "Merged") {
			return false
		}
		_, isSlice := ld.Type().Underlying().(*types.Slice)
		return isSlice
	}
	n := 0
	for _, f := range p.Funcs {
		for _, b := range f.Blocks {
			for _, ins := range b.Instrs {
				ia, ok := ins.(*ssa.IndexAddr)
				if !ok || !isStackField(ia.X) {
					continue
				}
				first := false
				if c, ok := ia.Index.(*ssa.Const); ok && c.Value != nil && c.Value.ExactString() == "0" {
					first = true
				}
				last := false
				if bo, ok := ia.Index.(*ssa.BinOp); ok && bo.Op == token.SUB {
					if c, ok := bo.Y.(*ssa.Const); ok && c.Value != nil && c.Value.ExactString() == "1" {
						if l, ok := bo.X.(*ssa.Call); ok {
							if bi, ok := l.Call.Value.(*ssa.Builtin); ok && bi.Name() == "len" {
								last = true
							}
						}
					}
				}
				if !first && !last {
					continue
				}
				n++
				key := funcKey(f) + " / first or last element of the table stack"
				if lenGuarded(b) {
					r.ok("EMPTY-STACK", key, "under a dominating length test")
				} else {
					r.violate("EMPTY-STACK", key, p.pos(ia.Pos()), "the first/last table of the stack is indexed without a non-emptiness test: on an empty stack (a legal state) this panics", nil)
				}
			}
		}
	}
	r.floor("EMPTY-STACK", n, 2, "first/last element accesses on stack slices")
}

// lenGuarded: some dominating branch compares a len(...) with a constant.
func lenGuarded(u *ssa.BasicBlock) bool {
	for _, b := range u.Parent().Blocks {
		iff, ok := b.Instrs[len(b.Instrs)-1].(*ssa.If)
		if !ok {
			continue
		}
		bo, ok := iff.Cond.(*ssa.BinOp)
		if !ok {
			continue
		}
		isLen := func(v ssa.Value) bool {
			if c, ok := v.(*ssa.Call); ok {
				if bi, ok := c.Call.Value.(*ssa.Builtin); ok && bi.Name() == "len" {
					return true
				}
			}
			return false
		}
		if !(isLen(bo.X) || isLen(bo.Y)) {
			continue
		}
		for _, s := range b.Succs {
			if len(s.Preds) == 1 && s.Dominates(u) {
				return true
			}
		}
	}
	return false
}

func init() {
	checks["C18"] = func(p *Program, r *Report) {
		cg := buildCallGraph(p)
		reach := cg.reachable(hostileRoots(p, cg))
		checkPanicReach(p, r, reach)
		checkNilContract(p, r, reach)
		checkBounds(p, r)
		checkInflateBounded(p, r, reach)
		checkSideArrays(p, r, reach)
		// the allow-table entry of tableIter.Next (record kind mismatch = API misuse) holds
		// only while an iterator is handed a block of the section it was asked for: the
		// index descent must check the type of the block an index entry (table bytes) leads to
		copyRules(p, r, checkSeekTables, "DT-DESCEND")
		copyRules(p, r, checkDescendDecreases, "DESCEND-DECREASES")
		r.Engines = []string{"panicreach", "nilcontract", "bounds", "dtable"}
		r.Explanation = "On everything reachable from the read API and NewReader: (a) every explicit panic, log.Panic/Fatal and unchecked type assertion is matched against a frozen allow-table of sites that only API misuse can reach (two entries are re-verified structurally on every run); (b) every function result that may be nil together with a nil error is nil-checked (dominating branch) before it is dereferenced, used as a receiver, wrapped in an interface or stored; (c) every index expression, slice expression and computed-size allocation in the byte decoders and block/table openers (22 functions) is an obligation discharged on every path of the abstract simulation from the path's linear facts (bounded Fourier-Motzkin over canonical terms, loop invariants by assume-and-check, value-changing integer conversions opaque); (d) data inflated from a zlib stream is read through a limit."
		r.NotDecided = []string{"termination of loops other than the index descent (whose ranking function, the block offset, is checked by DESCEND-DECREASES)", "functions outside the decoder set (heap operations, writer)", "wrap-around of unsigned additions of offsets"}
		r.Assumptions = []string{"allow-table entries marked trusted are reachable only through API misuse", "preconditions of DESIGN §3.6: 1 <= hashSize <= 64; blockReader invariants len(restartBytes) = 3*restartCount+2, headerOff+4 <= len(block) < 2^24; Reader.objectIDLen in [0,31]; ReadBlock is asked for at most 2^24 bytes; sort.Search(n,f) returns 0..n and calls f(i) with 0 <= i < n; record.decode returns 0 <= n <= len(buf) when ok (verified per implementation)", "64-bit int in the quick tier"}
		r.Stats["reachable_functions"] = len(reach)
	}
}
