package main

import (
	"fmt"
	"go/token"
	"go/types"
	"os"
	"strings"

	"golang.org/x/tools/go/ssa"
)

// Writer index construction typestate (C02, C14): NO-DROP, SECTION-CLEAN,
// INDEX-OFFSET, and the deletion-preservation / order-gate rules of C01.

// entriesCell: ghost cell abstracting "number of entries in the writer's
// current block" as 0 / positive (kept per writer, not per block object, so
// that joins at loop heads do not decorrelate it from the current block).
func (ws *writerSim) entriesCell() *Term { return mk("field", "Writer.$entries", nil, ws.w) }

type writerSim struct {
	w      *Term
	p      *Program
	r      *Report
	drops  map[string][]string // function -> witness of a NO-DROP violation
	nStore int
}

// writerCfg: block writer methods are modelled; the output is opaque.
func (ws *writerSim) cfg(entry string) *simCfg {
	return &simCfg{
		NoLoopSamples: true,
		PreciseExits:  true,
		Opaque: map[string]bool{"(*paddedWriter).Write": true, "(*Writer).headerBytes": true, "(*Writer).getBlockStats": true,
			"uniqSorted": true, "commonPrefixSize": true, "(*Writer).indexHash": true, "(*Writer).headerSize": true, "(*Writer).footerSize": true},
		Pure: map[string]bool{"(*blockWriter).getType": true, "method:(record).typ": true, "method:(record).key": true, "method:(record).String": true,
			"(*LogRecord).IsDeletion": true, "(*RefRecord).IsDeletion": true, "strings.TrimSpace": true, "strings.Contains": true},
		Model: func(c *simClient, x *Exec, st *State, fr *Frame, site ssa.CallInstruction, name string, callee *ssa.Function, fnTerm *Term, args []*Term) (bool, []CallOut) {
			switch name {
			case "(*Writer).newBlockWriter", "newBlockWriter":
				if name == "newBlockWriter" {
					return false, nil
				}
				bw := mk("bw", fr.ctx+"/"+siteID(fr, site), nil, x.curMark())
				return true, []CallOut{{St: st, Val: bw}}
			case "(*blockWriter).add":
				s2 := st.clone()
				bw := args[0]
				ev := mk("ev", name, nil, args...)
				c.g(st).events = append(c.g(st).events, ev)
				c.g(s2).events = append(c.g(s2).events, ev)
				_ = bw
				x.store(st, ws.entriesCell(), mk("positive", "", nil), nil)
				st.note(site.Pos(), "record added to the current block")
				s2.note(site.Pos(), "record does not fit the current block")
				return true, []CallOut{{St: st, Val: tTrue}, {St: s2, Val: tFalse}}
			case "(*Writer).finishSection":
				if entry == "(*Writer).finishSection" {
					return false, nil
				}
				// Summary of finishSection, which is exactly what SECTION-CLEAN
				// establishes for it in this same run: on success the pending
				// index is empty and the block writer is nil or empty.
				w := args[0]
				se := st.clone()
				se.note(site.Pos(), "finishSection: error")
				s1 := st
				s2 := st.clone()
				for i, s := range []*State{s1, s2} {
					x.store(s, mk("field", "Writer.index", nil, w), tNil, nil)
					if i == 0 {
						x.store(s, mk("field", "Writer.blockWriter", nil, w), tNil, nil)
					} else {
						x.store(s, mk("field", "Writer.blockWriter", nil, w), mk("bw", fr.ctx+"/"+siteID(fr, site)+"/left-empty", nil, x.curMark()), nil)
					}
					x.store(s, ws.entriesCell(), tConst("0", nil), nil)
					s.note(site.Pos(), "finishSection (summary): index empty, block writer nil or empty")
				}
				return true, []CallOut{{St: s1, Val: tNil}, {St: s2, Val: tNil}, {St: se, Val: mk("err", "IO", nil)}}
			case "(*Writer).flushBlock":
				if entry == "(*Writer).flushBlock" {
					return false, nil
				}
				// Summary of flushBlock, verified against its body by the
				// FLUSH-SUMMARY / INDEX-OFFSET obligations of this same run.
				w := args[0]
				bwAddr := mk("field", "Writer.blockWriter", nil, w)
				bw := x.load(st, bwAddr, nil)
				var outs []CallOut
				alts := []*Term{bw}
				if bw.Op == "oneof" {
					alts = bw.Args
				}
				for _, b := range alts {
					s := st.clone()
					if bw.Op == "oneof" {
						s.mem[bwAddr.key] = cell{bwAddr, b}
					}
					switch s.truth(tEq(b, tNil)) {
					case 1:
						outs = append(outs, CallOut{St: s, Val: tNil})
						continue
					case -1:
						s0 := s.clone()
						s0.setFact(tEq(b, tNil), true)
						outs = append(outs, CallOut{St: s0, Val: tNil})
						s.setFact(tEq(b, tNil), false)
					}
					ent := x.load(s, ws.entriesCell(), nil)
					switch s.truth(tEq(ent, tConst("0", nil))) {
					case 1:
						outs = append(outs, CallOut{St: s, Val: tNil})
						continue
					case -1:
						s0 := s.clone()
						s0.setFact(tEq(ent, tConst("0", nil)), true)
						outs = append(outs, CallOut{St: s0, Val: tNil})
						s.setFact(tEq(ent, tConst("0", nil)), false)
					}
					// write fails
					se := s.clone()
					se.note(site.Pos(), "flushBlock: write error")
					outs = append(outs, CallOut{St: se, Val: mk("err", "IO", nil)})
					// flushed
					idxAddr := mk("field", "Writer.index", nil, w)
					nextAddr := mk("field", "Writer.next", nil, w)
					nx := x.load(s, nextAddr, nil)
					entry := mk("struct", "", nil, x.load(s, mk("field", "blockWriter.lastKey", nil, b), nil), nx)
					s.mem[idxAddr.key] = cell{idxAddr, tList(false, append(append([]*Term{}, listMembers(x.load(s, idxAddr, nil))...), entry))}
					s.mem[nextAddr.key] = cell{nextAddr, mk("bin", "+", nil, nx, x.fresh("unk", fr, "n."+siteID(fr, site), nil))}
					c.g(s).flags["flushed:"+b.key] = tTrue
					x.store(s, bwAddr, tNil, nil)
					c.cfg.OnStoreHook(c, x, s, fr, site.Pos(), bwAddr, tNil, b)
					// no block writer, no pending entries
					x.store(s, ws.entriesCell(), tConst("0", nil), nil)
					s.note(site.Pos(), "flushBlock: block written, index entry appended, block writer cleared")
					outs = append(outs, CallOut{St: s, Val: tNil})
				}
				return true, outs
			case "(*blockWriter).finish":
				c.g(st).flags["flushed:"+args[0].key] = tTrue
				return true, []CallOut{{St: st, Val: x.opaqueResult(fr, site, callee, fnTerm, args)}}
			case "log.Panicf", "log.Printf":
				if name == "log.Panicf" {
					return true, []CallOut{{St: st, Panic: true}}
				}
				return true, []CallOut{{St: st, Val: nil}}
			}
			return false, nil
		},
		OnStoreHook: func(c *simClient, x *Exec, st *State, fr *Frame, pos token.Pos, addr, val, old *Term) {
			if addr.Op != "field" || addr.Aux != "Writer.blockWriter" {
				return
			}
			ws.nStore++
			g := c.g(st)
			if old == nil {
				old = mk("init", "", nil, addr)
			}
			entBefore := x.load(st, ws.entriesCell(), nil)
			if val.Op == "bw" {
				// a fresh block writer holds no entries
				x.store(st, ws.entriesCell(), tConst("0", nil), nil)
			}
			if val.isNilConst() && !c.cfg.Keep["allowNilDrop"] {
				// clearing the block writer: must not hold unflushed entries either
			}
			if old.isNilConst() || old == val || st.truth(tEq(old, tNil)) == 1 {
				return
			}
			// the previous block writer must be empty or flushed (a flush clears the field)
			alts := []*Term{old}
			if old.Op == "oneof" {
				alts = old.Args
			}
			allOK := true
			ent := entBefore
			for _, o := range alts {
				if o.isNilConst() || st.truth(tEq(o, tNil)) == 1 || st.truth(tEq(ent, tConst("0", nil))) == 1 || g.flags["flushed:"+o.key] == tTrue {
					continue
				}
				allOK = false
			}
			if allOK {
				return
			}
			if os.Getenv("RSA_DEBUG") == "8" {
				fmt.Fprintf(os.Stderr, "NO-DROP in %s at %s: old=%s ent=%s new=%s flags=%v\n", funcKey(fr.fn), ws.p.pos(pos), old.key, ent.key, val.key, g.flags)
			}
			ws.drops[entry] = witnessOf(ws.p, st.trace)
			ws.r.violate("NO-DROP", funcKey(fr.fn)+" / block writer replaced only when empty or flushed", ws.p.pos(pos),
				"the current block writer is replaced while it may still hold records that were never flushed: a block of (index) entries is lost and the keys it covers become unreachable", witnessOf(ws.p, st.trace))
		},
	}
}

func unwrapNonNil(t *Term) *Term {
	if t.Op == "nonnil" {
		return t.Args[0]
	}
	return t
}

func checkWriterTypestate(p *Program, r *Report) {
	ws := &writerSim{p: p, r: r, drops: map[string][]string{}}
	wT := p.namedType("Writer")
	_ = wT
	// dumpObjectIndex is analysed where it is called (inside finishPublicSection),
	// with the state finishSection leaves behind
	entries := []string{"(*Writer).finishSection", "(*Writer).add", "(*Writer).finishPublicSection"}
	for _, en := range entries {
		if o := os.Getenv("RSA_ONLY"); o != "" && !strings.Contains(en, o) {
			continue
		}
		f := p.MustFunc(en)
		ws.w = mk("param", en+"."+f.Params[0].Name(), f.Params[0].Type())
		cfg := ws.cfg(en)
		// flushBlock is inlined everywhere; in finishPublicSection the callees are inlined too
		c, xx := runSim(p, f, cfg, nil)
		if os.Getenv("RSA_DEBUG") != "" {
			fmt.Fprintf(os.Stderr, "sim %s: paths=%d forks=%d steps=%d loops=%d rounds=%d memo=%d samples=%d\n", en, xx.NPaths, xx.NForks, xx.NStates, xx.NLoops, xx.NRounds, xx.NMerged, len(c.Samples))
		}
		recv := mk("param", en+"."+f.Params[0].Name(), f.Params[0].Type())
		nExit := 0
		for _, s := range c.Samples {
			if s.Kind != "ret" || s.Panic {
				continue
			}
			errv := s.Vals[len(s.Vals)-1]
			if s.St.truth(tEq(errv, tNil)) == 0 {
				continue
			}
			if en != "(*Writer).finishSection" && en != "(*Writer).finishPublicSection" && en != "(*Writer).dumpObjectIndex" {
				continue
			}
			nExit++
			// SECTION-CLEAN
			idx := a_load(s.St, mk("field", "Writer.index", nil, recv))
			clean := idx.isNilConst() || (idx.Op == "list" && len(idx.Args) == 0)
			if en == "(*Writer).finishPublicSection" && idx.Op == "init" && len(idx.Args) == 1 {
				// nothing was written on this path (no block writer): the index is untouched
				clean = true
			}
			key := en + " / no pending index entry survives the section"
			if !clean {
				r.violate("SECTION-CLEAN", key, p.pos(f.Pos()), "a section can end with entries left in the pending index ("+idx.String()+"): they would be written into the next section's index and point at blocks of this section", witnessOf(p, s.St.trace))
			} else {
				r.ok("SECTION-CLEAN", key, "w.index is empty at every successful exit")
			}
			bw := a_load(s.St, mk("field", "Writer.blockWriter", nil, recv))
			key2 := en + " / no unflushed block at the end of the section"
			okBW := bw.isNilConst() || s.St.truth(tEq(bw, tNil)) == 1
			ent := a_load(s.St, ws.entriesCell())
			if s.St.truth(tEq(ent, tConst("0", nil))) == 1 {
				okBW = true
			}
			if bw.Op == "oneof" && !okBW {
				okBW = true
				for _, b := range bw.Args {
					if !(b.isNilConst() || s.St.truth(tEq(b, tNil)) == 1) {
						okBW = false
					}
				}
			}
			if !okBW {
				r.violate("SECTION-CLEAN", key2, p.pos(f.Pos()), "a section can end while the current block writer still holds unflushed entries", witnessOf(p, s.St.trace))
			} else {
				r.ok("SECTION-CLEAN", key2, "block writer nil or empty at every successful exit")
			}
		}
		if en == "(*Writer).finishSection" {
			r.floor("SECTION-CLEAN", nExit, 1, "successful exits of finishSection")
		}
		if _, bad := ws.drops[en]; !bad {
			r.ok("NO-DROP", en+" / block writer replaced only when empty or flushed", "every store to Writer.blockWriter follows a flush or finds the block empty")
		}
	}
	r.floor("NO-DROP.stores", ws.nStore, 6, "stores to Writer.blockWriter examined")
	// INDEX-OFFSET in flushBlock
	{
		f := p.MustFunc("(*Writer).flushBlock")
		ws.w = mk("param", "(*Writer).flushBlock."+f.Params[0].Name(), f.Params[0].Type())
		cfg := ws.cfg("(*Writer).flushBlock")
		c, _ := runSim(p, f, cfg, nil)
		recv := mk("param", "(*Writer).flushBlock."+f.Params[0].Name(), nil)
		next0 := mk("init", "", nil, mk("field", "Writer.next", nil, recv))
		n := 0
		bw0 := mk("init", "", nil, mk("field", "Writer.blockWriter", nil, recv))
		for _, s := range c.Samples {
			if s.Kind != "ret" || s.Panic {
				continue
			}
			idx := a_load(s.St, mk("field", "Writer.index", nil, recv))
			bwNow := a_load(s.St, mk("field", "Writer.blockWriter", nil, recv))
			isErr := s.St.truth(tEq(s.Vals[0], tNil)) == 0
			if isErr || idx.Op != "list" {
				// summary classes 1 and 3: nothing flushed => state untouched, and a
				// nil return without a flush only for a nil or empty block writer
				keyS := "(*Writer).flushBlock / summary: no flush leaves the writer untouched"
				ent := a_load(s.St, mk("field", "blockWriter.entries", nil, bw0))
				emptyOrNil := s.St.truth(tEq(bw0, tNil)) == 1 || s.St.truth(tEq(ent, tConst("0", nil))) == 1
				if idx.Op == "list" || bwNow != bw0 || (!isErr && !emptyOrNil) {
					r.violate("FLUSH-SUMMARY", keyS, p.pos(f.Pos()), "flushBlock can return without flushing although the block writer holds entries, or changes the writer state on a path that does not flush; callers are analysed under the summary 'nil/empty: no-op; else flushed or error'", witnessOf(p, s.St.trace))
				} else {
					r.ok("FLUSH-SUMMARY", keyS, "no-op exactly for a nil or empty block writer; error leaves the state unchanged")
				}
				continue
			}
			n++
			good := false
			for _, m := range idx.Args {
				if m.Op == "struct" && len(m.Args) == 2 && m.Args[1] == next0 {
					good = true
				}
			}
			nx := a_load(s.St, mk("field", "Writer.next", nil, recv))
			adv := nx.Op == "bin" && nx.Aux == "+" && nx.Args[0] == next0
			bwAfter := a_load(s.St, mk("field", "Writer.blockWriter", nil, recv))
			key := "(*Writer).flushBlock / index entry records where the block starts"
			if !good || !adv || !bwAfter.isNilConst() {
				r.violate("INDEX-OFFSET", key, p.pos(f.Pos()), fmt.Sprintf("after a flush the pending index entry must hold the offset at which the block was written (next before it is advanced), next must advance and the block writer be cleared; got entry ok=%v, advance ok=%v, cleared=%v", good, adv, bwAfter.isNilConst()), witnessOf(p, s.St.trace))
			} else {
				r.ok("INDEX-OFFSET", key, "index entry = (last key, next before advance); next += n; blockWriter = nil")
			}
		}
		r.floor("INDEX-OFFSET", n, 1, "flushing paths of flushBlock")
	}
}

func a_load(st *State, addr *Term) *Term {
	if c, ok := st.mem[addr.key]; ok {
		return c.val
	}
	return mk("init", "", nil, addr)
}

// ---------------------------------------------------------------------------
// C01.4 deletion preservation, C01.6 / C14 writer gates

func checkWriterGates(p *Program, r *Report) {
	// DT-WRITER-ORDER: Writer.add rejects lastKey >= key before touching the block writer
	{
		f := p.MustFunc("(*Writer).add")
		ws := &writerSim{p: p, r: newReport("x", "quick", 0), drops: map[string][]string{}}
		ws.w = mk("param", "(*Writer).add."+f.Params[0].Name(), f.Params[0].Type())
		cfg := ws.cfg("(*Writer).add")
		c, _ := runSim(p, f, cfg, nil)
		recv := mk("param", "(*Writer).add."+f.Params[0].Name(), nil)
		rec := mk("param", "(*Writer).add."+f.Params[1].Name(), f.Params[1].Type())
		last := mk("init", "", nil, mk("field", "Writer.lastKey", nil, recv))
		n := 0
		for _, s := range c.Samples {
			if s.Panic {
				continue
			}
			touched := false
			for _, e := range s.Events {
				if e.Op == "ev" && e.Aux == "(*blockWriter).add" {
					touched = true
				}
			}
			if !touched {
				continue
			}
			n++
			var key *Term
			for _, k := range sortedFactKeys(s.St) {
				s.St.fterm[k].walk(func(u *Term) {
					if u.Op == "pcall" && u.Aux == "method:(record).key" && u.Args[0] == rec {
						key = u
					}
				})
			}
			okk := key != nil
			if okk {
				ok2, _ := implied(s.St, fAtom(tLt(last, key)))
				okk = ok2
			}
			k := "(*Writer).add / keys strictly ascending"
			if !okk {
				r.violate("DT-WRITER-ORDER", k, p.pos(f.Pos()), "a record can reach the block writer although its key is not greater than the previous key: keys would not be strictly ascending within and across blocks", witnessOf(p, s.St.trace))
			} else {
				r.ok("DT-WRITER-ORDER", k, "block writer touched => lastKey < key")
			}
		}
		r.floor("DT-WRITER-ORDER", n, 1, "paths of Writer.add reaching the block writer")
	}
	// DT-WRITER-IDX + DELETION-PRESERVED for AddRef / AddLog
	for _, en := range []string{"(*Writer).AddRef", "(*Writer).AddLog"} {
		f := p.MustFunc(en)
		cfg := &simCfg{
			Event:           map[string]bool{"(*Writer).add": true},
			Keep:            map[string]bool{"(*Writer).add": true},
			Opaque:          map[string]bool{"(*Writer).indexHash": true, "(*Writer).finishPublicSection": true},
			Pure:            map[string]bool{"strings.TrimSpace": true, "strings.Contains": true, "(*blockWriter).getType": true},
			Inline:          map[string]bool{"(*LogRecord).IsDeletion": true, "(*RefRecord).IsDeletion": true},
			NoInlineDefault: true,
		}
		c, x := runSim(p, f, cfg, nil)
		recv := mk("param", en+"."+f.Params[0].Name(), nil)
		in := mk("param", en+"."+f.Params[1].Name(), f.Params[1].Type())
		n := 0
		for _, s := range c.Samples {
			ev := hasEvent(s.Events, "(*Writer).add")
			if ev == nil || s.Kind != "ret" {
				continue
			}
			n++
			w := witnessOf(p, s.St.trace)
			out := ev.Args[1]
			if en == "(*Writer).AddRef" {
				idx := mk("init", "", nil, mk("field", "RefRecord.UpdateIndex", nil, in))
				min := mk("init", "", nil, mk("field", "Writer.minUpdateIndex", nil, recv))
				max := mk("init", "", nil, mk("field", "Writer.maxUpdateIndex", nil, recv))
				if ok, cex := implied(s.St, fAnd(fNot(fAtom(tLt(idx, min))), fNot(fAtom(tLt(max, idx))))); !ok {
					r.violate("DT-WRITER-IDX", en+" / update index within the declared limits", p.pos(f.Pos()), "a ref can be written although its update index lies outside [min,max] of the header: "+cex, w)
				} else {
					r.ok("DT-WRITER-IDX", en+" / update index within the declared limits", "written => min <= UpdateIndex <= max")
				}
			}
			// deletion preservation: if the input record is a deletion, the record
			// handed to the block writer still is.  A deletion has all payload
			// fields at their zero value; the record written must have them too.
			var fields []string
			styp := f.Params[1].Type().(*types.Pointer).Elem().Underlying().(*types.Struct)
			tname := f.Params[1].Type().(*types.Pointer).Elem().(*types.Named).Obj().Name()
			for i := 0; i < styp.NumFields(); i++ {
				fn := fname(styp.Field(i))
				if fn == "RefName" || fn == "UpdateIndex" {
					continue
				}
				fields = append(fields, fn)
			}
			bad := ""
			for i := 0; i < styp.NumFields(); i++ {
				fn := fname(styp.Field(i))
				if fn == "RefName" || fn == "UpdateIndex" {
					continue
				}
				inV := mk("init", "", nil, mk("field", tname+"."+fn, nil, in))
				outV := x.load(s.St, mk("field", tname+"."+fn, nil, out), styp.Field(i).Type())
				if outV == inV {
					continue
				}
				// the field was rewritten: only acceptable if the path establishes that the input is not a deletion
				notDel := false
				for _, fn2 := range fields {
					v2 := mk("init", "", nil, mk("field", tname+"."+fn2, nil, in))
					z := zeroOf(fieldType(styp, fn2))
					if s.St.truth(tEq(v2, z)) == 0 {
						notDel = true
					}
				}
				if !notDel {
					bad = fn + " becomes " + outV.String()
				}
			}
			key := en + " / a deletion record is written as a deletion"
			if bad != "" {
				r.violate("DELETION-PRESERVED", key, p.pos(f.Pos()), "a record whose payload fields are all empty (a deletion) can reach the block writer with a payload field changed ("+bad+"): it would be encoded as a live entry", w)
			} else {
				r.ok("DELETION-PRESERVED", key, "payload fields reach the block writer unchanged unless the record is known not to be a deletion")
			}
		}
		r.floor("WRITER-GATE."+f.Name(), n, 1, "paths of "+en+" reaching Writer.add")
	}
	// DT-DEL: IsDeletion is true exactly when every payload field is empty
	for _, tn := range []string{"RefRecord", "LogRecord"} {
		f := p.MustFunc("(*" + tn + ").IsDeletion")
		cfg := &simCfg{NoInlineDefault: true}
		c, _ := runSim(p, f, cfg, nil)
		styp := p.namedType(tn).Underlying().(*types.Struct)
		recv := mk("param", funcKey(f)+"."+f.Params[0].Name(), nil)
		var atoms []*Formula
		for i := 0; i < styp.NumFields(); i++ {
			fn := fname(styp.Field(i))
			if fn == "RefName" || fn == "UpdateIndex" {
				continue
			}
			v := mk("init", "", nil, mk("field", tn+"."+fn, nil, recv))
			atoms = append(atoms, fAtom(tEq(v, zeroOf(styp.Field(i).Type()))))
		}
		allEmpty := fAnd(atoms...)
		n := 0
		for _, s := range c.Samples {
			if s.Kind != "ret" || s.Panic {
				continue
			}
			n++
			R := fAtom(s.Vals[0])
			spec := fAnd(fImplies(R, allEmpty), fImplies(allEmpty, R))
			key := funcKey(f) + " / deletion <=> every payload field empty"
			if ok, cex := implied(s.St, spec); !ok {
				r.violate("DT-DEL", key, p.pos(f.Pos()), "IsDeletion does not hold exactly when all payload fields ("+strings.Join(payloadNames(styp), ", ")+") are empty: "+cex, witnessOf(p, s.St.trace))
			} else {
				r.ok("DT-DEL", key, "all valuations of the field-emptiness atoms agree")
			}
		}
		r.floor("DT-DEL."+tn, n, 1, "return paths of IsDeletion")
	}
}

// copyRules runs a rule set into a scratch report and copies the obligations of the named rules.
func copyRules(p *Program, r *Report, f func(*Program, *Report), rules ...string) {
	defer func() {
		if e := recover(); e != nil {
			ae, ok := e.(analysisError)
			if !ok {
				panic(e)
			}
			// this rule set lost its anchor; the other rule sets of the property still run
			r.violate("UNDECIDED", "anchor / "+ae.msg, "-", "the analysis cannot resolve a construct its rules ("+strings.Join(rules, ", ")+") are anchored in ("+ae.msg+"): the structural condition they decide is not established on this tree", nil)
		}
	}()
	want := map[string]bool{}
	for _, ru := range rules {
		want[ru] = true
	}
	r2 := newReport(r.Property, r.Tier, r.Seed)
	f(p, r2)
	for k, o := range r2.Obl {
		if !want[o.Rule] {
			continue
		}
		if v, bad := r2.Viol[k]; bad {
			r.violate(o.Rule, strings.TrimPrefix(k, o.Rule+" / "), v.Where, v.Message, v.Witness)
		} else {
			r.ok(o.Rule, strings.TrimPrefix(k, o.Rule+" / "), o.Note)
		}
	}
	r.Floors = append(r.Floors, r2.Floors...)
}

func payloadNames(st *types.Struct) []string {
	var ns []string
	for i := 0; i < st.NumFields(); i++ {
		if n := fname(st.Field(i)); n != "RefName" && n != "UpdateIndex" {
			ns = append(ns, n)
		}
	}
	return ns
}

func fieldType(st *types.Struct, name string) types.Type {
	for i := 0; i < st.NumFields(); i++ {
		if fname(st.Field(i)) == name {
			return st.Field(i).Type()
		}
	}
	return nil
}

func init() {
	checks["C02"] = func(p *Program, r *Report) {
		checkWriterTypestate(p, r)
		checkSeekTables(p, r)
		checkReadWidth(p, r)
		checkAlignFree(p, r)
		checkSingleDecoder(p, r)
		// the answer of a seek is a function of the table and the key only: nothing on
		// the read path may write state a later seek on the same Reader could observe
		copyStateless(p, r, "SEEK-STATELESS", "a seek can depend on the Reader's history", "shared *Merged", "Merged / ")
		// the restart table is addressed correctly: the index and slice obligations of the
		// block reader's seek helpers (offset arithmetic that wraps in a narrow type reads
		// a misaligned restart offset long before it panics)
		func() {
			r2 := newReport(r.Property, r.Tier, r.Seed)
			guarded(r, []string{"RESTART-ARITH"}, func() { checkBounds(p, r2) })
			n := 0
			for k, o := range r2.Obl {
				if o.Rule != "BOUNDS" || !strings.Contains(k, "(*blockReader)") {
					continue
				}
				n++
				key := strings.TrimPrefix(k, "BOUNDS / ")
				if v, bad := r2.Viol[k]; bad {
					r.violate("RESTART-ARITH", key, v.Where, v.Message, v.Witness)
				} else {
					r.ok("RESTART-ARITH", key, o.Note)
				}
			}
			r.floor("RESTART-ARITH", n, 5, "index and slice obligations in the block reader's seek helpers")
		}()
		r.Engines = []string{"pathsim", "typestate", "dtable", "effects", "bounds"}
		r.Explanation = "Index construction typestate in the writer (path-sensitive simulation with the block writer modelled as nil / empty / non-empty and flushBlock, finishSection replaced at their call sites by summaries that are verified against their bodies in the same run): the current block writer is replaced only when it is nil, empty or flushed (no index block is lost), every successful exit of a section leaves the pending index empty and no unflushed block (no entry leaks into the next section), the index entry of a block records the offset before it is advanced. Decision tables of the reader's seek: in-block scan stops exactly at the first key not smaller and returns the position before it, restart predicate, block skipping of the linear seek, index descent (return a child only of the wanted type and positioned, descend only into index blocks), and only the table iterator advances its own block iterator (reads roll over to the next block)."
		r.NotDecided = []string{"that seek followed by scan equals the scan suffix for a given table (needs the arithmetic of block offsets, padding and restart positions)", "contents of multi-level indexes", "restart offset arithmetic beyond range and wrap-around of the index expressions (RESTART-ARITH)"}
		r.Assumptions = []string{"blockWriter.add returning true means the record was appended to the current block", "iterator Next fills the record passed to it"}
	}
}

func init() {
	checks["C01"] = func(p *Program, r *Report) {
		checkWriterGates(p, r)
		checkRestartCap(p, r)
		copyRules(p, r, checkWireSeq, "WIRE-AGREE", "KEY-BITS", "LOGKEY-CODEC")
		checkPadAccount(p, r)
		checkKeyBytewise(p, r)
		// a scan returns what the bytes say, whatever was read through the same Reader before
		checkReadWidth(p, r)
		{
			cg := buildCallGraph(p)
			checkInflateSlack(p, r, cg.reachable(hostileRoots(p, cg)))
		}
		copyStateless(p, r, "SCAN-STATELESS", "what a scan returns can depend on earlier reads through the same Reader", "shared *Merged", "Merged / ")
		r.Engines = []string{"pathsim", "dtable", "wireseq", "bounds", "effects"}
		r.Explanation = "Structural necessary conditions of the round trip, decided on every path by abstract simulation: a record whose payload fields are all empty (a deletion) reaches the block writer with its payload untouched (the log message normalisation must not turn a tombstone into a live entry); IsDeletion is true exactly when every payload field is empty (all valuations of the field-emptiness atoms); AddRef writes only update indices inside the declared limits; Writer.add lets a record reach the block writer only if its key is greater than the previous key; a restart point is recorded only while the 16-bit restart count has room and only for keys stored without prefix; for ref, log and index records and every value type the ordered wire events (varint / bytes / string / u16, each tied to the record field it is read from or stored to) written by encode on the paths of the writer's documented domain equal those read by decode; the key codec's shift and mask constants agree between the encoder and both decoders; the log key codec pair uses the same 9-byte reversed big-endian suffix. The update-index delta is decided under C11, conformance of the sequences with the format under C14."
		r.NotDecided = []string{"that the bytes of a given record set read back equal (block boundaries, padding, offsets, zlib stream length, varint arithmetic)", "reflog blocks larger than the block size"}
		r.Assumptions = []string{"record.key() is pure"}
	}
}
