package main

import (
	"fmt"
	"go/token"
	"go/types"
	"os"
	"sort"
	"strings"

	"golang.org/x/tools/go/ssa"
)

// Seek decision tables (C02): DT-BLOCK-SEEK, DT-RESTART, DT-RESTART-PICK,
// DT-SKIP, DT-DESCEND, SEEK-DISPATCH, ROLL-OVER, LOGKEY-CODEC.

func checkSeekTables(p *Program, r *Report) {
	keyName := "method:(record).key"
	// ---- DT-BLOCK-SEEK: in-block scan of blockReader.seek
	{
		f := p.MustFunc("(*blockReader).seek")
		fk := funcKey(f)
		cfg := &simCfg{Event: map[string]bool{"(*blockIter).Next": true}, Pure: map[string]bool{keyName: true, "(*blockReader).getType": true, "(*blockReader).restartOffset": true},
			Opaque: map[string]bool{"sort.Search": true, "newRecord": true}, NoInlineDefault: true, Inline: map[string]bool{}}
		// the restart search and the scan may live in helpers of seek
		for _, h := range withHelpers(p, f)[1:] {
			if k := funcKey(h); !cfg.Event[k] && !cfg.Pure[k] && !cfg.Opaque[k] && h.Parent() == nil {
				cfg.Inline[k] = true
			}
		}
		c, _ := runSim(p, f, cfg, nil)
		want := mk("param", fk+"."+f.Params[1].Name(), f.Params[1].Type())
		nStop, nGo := 0, 0
		for _, s := range c.Samples {
			var nx *Term
			var res *Term
			cm := termByKey(s.Loop)
			for i, e := range s.Events {
				if e.Op == "ev" && e.Aux == "(*blockIter).Next" && (cm == nil || e.Args[len(e.Args)-1].contains(cm) || s.Kind == "ret") && i+1 < len(s.Events) {
					nx, res = e, s.Events[i+1].Args[0]
				}
			}
			if nx == nil || res.Op != "tuple" {
				continue
			}
			rec := nx.Args[1]
			K := mk("pcall", keyName, nil, rec, memSnap(s.St, rec))
			okT := fAtom(res.Args[0])
			w := witnessOf(p, s.St.trace)
			if os.Getenv("RSA_DEBUG") == "9" {
				fmt.Fprintf(os.Stderr, "sample %s K=%s\n", s.Kind, tLt(K, want).key)
				for _, k := range sortedFactKeys(s.St) {
					v := s.St.facts[k]
					_ = v
					if strings.Contains(k, "key") {
						fmt.Fprintf(os.Stderr, "   fact %s = %v\n", k, v)
					}
				}
			}
			switch {
			case s.Kind == "back":
				nGo++
				if ok, cex := implied(s.St, fAnd(okT, fAtom(tLt(K, want)))); !ok {
					r.violate("DT-BLOCK-SEEK", fk+" / scan continues only past smaller keys", p.pos(f.Pos()), "the in-block scan can step over a record whose key is not smaller than the key sought: "+cex, w)
				} else {
					r.ok("DT-BLOCK-SEEK", fk+" / scan continues only past smaller keys", "continue => ok and rec.key < key")
				}
			case s.Kind == "ret" && !s.Panic && s.St.truth(tEq(s.Vals[1], tNil)) != 0 && !s.Vals[0].isNilConst():
				nStop++
				if ok, cex := implied(s.St, fOr(fNot(okT), fNot(fAtom(tLt(K, want))))); !ok {
					r.violate("DT-BLOCK-SEEK", fk+" / scan stops at the first key not smaller", p.pos(f.Pos()), "the in-block scan can stop before a record whose key is still smaller than the key sought: "+cex, w)
				} else {
					r.ok("DT-BLOCK-SEEK", fk+" / scan stops at the first key not smaller", "stop => not ok or rec.key >= key")
				}
				// the iterator returned is the state before that record: the
				// copy handed to Next is not the value returned
				if nx.Args[0] == s.Vals[0] {
					r.violate("DT-BLOCK-SEEK", fk+" / returns the position before the record", p.pos(f.Pos()), "the iterator returned was itself advanced over the first record at or after the key", w)
				} else {
					r.ok("DT-BLOCK-SEEK", fk+" / returns the position before the record", "Next is applied to a copy")
				}
			}
		}
		r.floor("DT-BLOCK-SEEK.stop", nStop, 1, "stop paths of the in-block scan")
		r.floor("DT-BLOCK-SEEK.continue", nGo, 1, "continue paths of the in-block scan")
	}
	// ---- DT-RESTART: predicate passed to the binary search
	{
		// the predicate is the closure handed to sort.Search by a block reader method
		var pred *ssa.Function
		nPred := 0
		for _, f := range p.Funcs {
			for _, ci := range callsDirect(f, "sort.Search") {
				if mc, ok := ci.Common().Args[1].(*ssa.MakeClosure); ok {
					// a closure, or a method value (then the method is the predicate)
					if g, _ := p.closureTarget(mc); g != nil {
						pred = g
						nPred++
					}
				}
			}
		}
		if pred == nil || nPred != 1 {
			fatalf("unresolved anchor: restart search predicate (closure handed to sort.Search): %d found", nPred)
		}
		cfg := &simCfg{Pure: map[string]bool{"(*blockReader).restartOffset": true}, Event: map[string]bool{"decodeRestartKey": true}, Keep: map[string]bool{"decodeRestartKey": true}, NoInlineDefault: true}
		c, _ := runSim(p, pred, cfg, nil)
		n := 0
		for _, s := range c.Samples {
			if s.Kind != "ret" || s.Panic {
				continue
			}
			var rk *Term
			for i, e := range s.Events {
				if e.Op == "ev" && e.Aux == "decodeRestartKey" && i+1 < len(s.Events) && s.Events[i+1].Args[0].Op == "tuple" {
					rk = s.Events[i+1].Args[0].Args[0]
				}
			}
			if rk == nil {
				continue
			}
			n++
			var key *Term
			for _, fv := range pred.FreeVars {
				ft := mk("free", funcKey(pred)+"."+fv.Name(), fv.Type())
				if b, ok := fv.Type().Underlying().(*types.Basic); ok && b.Kind() == types.String {
					key = ft
				}
				if pt, ok := fv.Type().Underlying().(*types.Pointer); ok {
					if b, ok := pt.Elem().Underlying().(*types.Basic); ok && b.Kind() == types.String {
						key = mk("init", "", nil, ft)
					}
				}
			}
			if key == nil && pred.Signature.Recv() != nil && len(pred.Params) > 0 {
				// a method value: the key is the string field of the receiver
				recv := mk("param", funcKey(pred)+"."+pred.Params[0].Name(), pred.Params[0].Type())
				rt := pred.Params[0].Type()
				if pt, ok := rt.Underlying().(*types.Pointer); ok {
					rt = pt.Elem()
				}
				if nt, ok := rt.(*types.Named); ok {
					if stt, ok := nt.Underlying().(*types.Struct); ok {
						nStr := 0
						for i := 0; i < stt.NumFields(); i++ {
							if b, ok := stt.Field(i).Type().Underlying().(*types.Basic); ok && b.Kind() == types.String {
								nStr++
								key = a_load(s.St, mk("field", nt.Obj().Name()+"."+fname(stt.Field(i)), nil, recv))
							}
						}
						if nStr != 1 {
							key = nil
						}
					}
				}
			}
			if key == nil {
				r.violate("DT-RESTART", funcKey(pred)+" / restart predicate", p.pos(pred.Pos()), "cannot identify the key the restart search compares with", nil)
				continue
			}
			R := fAtom(s.Vals[0])
			if ok, cex := implied(s.St, fImplies(fAtom(tLt(key, rk)), R)); !ok {
				r.violate("DT-RESTART", funcKey(pred)+" / restart key beyond the wanted key => true", p.pos(pred.Pos()), "the restart search predicate can be false for a restart key greater than the key sought (the search would start after the wanted record): "+cex, witnessOf(p, s.St.trace))
			} else {
				r.ok("DT-RESTART", funcKey(pred)+" / restart key beyond the wanted key => true", "rkey > key => predicate true")
			}
		}
		r.floor("DT-RESTART", n, 1, "returns of the restart predicate")
	}
	// ---- DT-SKIP: block skipping of seekLinear
	{
		f := p.MustFunc("(*Reader).seekLinear")
		fk := funcKey(f)
		cfg := &simCfg{Event: map[string]bool{"(*tableIter).nextBlock": true, "(*tableIter).Next": true, "(*blockIter).seek": true}, Pure: map[string]bool{keyName: true, "method:(record).typ": true},
			Opaque: map[string]bool{"newRecord": true}, FlagExits: true}
		c, _ := runSim(p, f, cfg, nil)
		wantRec := mk("param", fk+"."+f.Params[2].Name(), f.Params[2].Type())
		nB, nS := 0, 0
		for _, s := range c.Samples {
			cm := termByKey(s.Loop)
			if cm == nil {
				continue
			}
			var nx, nxRes *Term
			for i, e := range s.Events {
				if e.Op == "ev" && e.Aux == "(*tableIter).Next" && e.Args[len(e.Args)-1].contains(cm) && i+1 < len(s.Events) {
					nx, nxRes = e, s.Events[i+1].Args[0]
				}
			}
			if nx == nil || nxRes.Op != "tuple" || s.St.truth(nxRes.Args[0]) != 1 {
				continue // no record was read on this path (error exits)
			}
			rec := nx.Args[1]
			K := mk("pcall", keyName, nil, rec, memSnap(s.St, rec))
			W := mk("pcall", keyName, nil, wantRec, memSnap(s.St, wantRec))
			w := witnessOf(p, s.St.trace)
			switch s.Kind {
			case "back":
				nB++
				if ok, cex := implied(s.St, fNot(fAtom(tLt(W, K)))); !ok {
					r.violate("DT-SKIP", fk+" / a block is skipped only if its first key is not beyond the key", p.pos(f.Pos()), "a block whose first key is greater than the key sought can be skipped: "+cex, w)
				} else {
					r.ok("DT-SKIP", fk+" / a block is skipped only if its first key is not beyond the key", "skip => not first.key > want")
				}
			case "break":
				last := ""
				for _, e := range s.Events {
					if e.Op == "ev" {
						last = e.Aux
					}
				}
				if last != "(*tableIter).Next" {
					continue
				}
				nS++
				if os.Getenv("RSA_DEBUG") == "9" {
					fmt.Fprintf(os.Stderr, "SKIP-STOP K<W=%s\n", tLt(K, W).key)
					for _, k := range sortedFactKeys(s.St) {
						v := s.St.facts[k]
						_ = v
						if strings.Contains(k, "key") {
							fmt.Fprintf(os.Stderr, "   fact %s = %v\n", k, v)
						}
					}
				}
				if ok, cex := implied(s.St, fNot(fAtom(tLt(K, W)))); !ok {
					r.violate("DT-SKIP", fk+" / skipping stops only at a block starting at or after the key", p.pos(f.Pos()), "block skipping can stop at a block whose first key is still smaller than the key sought: "+cex, w)
				} else {
					r.ok("DT-SKIP", fk+" / skipping stops only at a block starting at or after the key", "stop after reading => first.key >= want")
				}
			}
		}
		r.floor("DT-SKIP.skip", nB, 1, "skip iterations of seekLinear")
		r.floor("DT-SKIP.stop", nS, 1, "stop exits of seekLinear")
	}
	// ---- ROLL-OVER: only the table iterator itself advances its embedded block iterator
	{
		ti := p.namedType("tableIter")
		n := 0
		for _, f := range p.Funcs {
			for _, ci := range callsDirect(f, "(*blockIter).Next") {
				recvArg := ci.Common().Args[0]
				fa, ok := recvArg.(*ssa.FieldAddr)
				if !ok {
					continue
				}
				pt, ok := fa.X.Type().Underlying().(*types.Pointer)
				if !ok || !types.Identical(pt.Elem(), ti) {
					continue
				}
				n++
				key := funcKey(f) + " / reads from a table iterator roll over to the next block"
				own := false
				if rv := f.Signature.Recv(); rv != nil {
					rt := rv.Type()
					if p2, ok := rt.(*types.Pointer); ok {
						rt = p2.Elem()
					}
					own = types.Identical(rt, ti)
				}
				if !own {
					r.violate("ROLL-OVER", key, p.pos(ci.Pos()), "a record is read through the block iterator embedded in a table iterator from outside the table iterator: at the end of a block the read stops instead of continuing in the next block (keys in later blocks of a multi-block index level are missed)", nil)
				} else {
					r.ok("ROLL-OVER", key, "only tableIter's own method advances its block iterator")
				}
			}
		}
		r.floor("ROLL-OVER", n, 1, "calls advancing a table iterator's block iterator")
	}
	// ---- DT-DESCEND / SEEK-DISPATCH
	{
		f := p.MustFunc("(*Reader).seekIndexed")
		fk := funcKey(f)
		cfg := &simCfg{Event: map[string]bool{"(*Reader).seekLinear": true, "(*tableIter).Next": true, "(*Reader).tabIterAt": true, "(*blockIter).seek": true, "(*Reader).start": true, "(*blockReader).seek": true},
			Pure: map[string]bool{keyName: true, "method:(record).typ": true}, Opaque: map[string]bool{"newRecord": true, "(*Reader).newBlockReader": true}}
		c, _ := runSim(p, f, cfg, nil)
		nRet, nDesc := 0, 0
		for _, s := range c.Samples {
			var tab *Term
			for i, e := range s.Events {
				if e.Op == "ev" && e.Aux == "(*Reader).tabIterAt" && i+1 < len(s.Events) && s.Events[i+1].Args[0].Op == "tuple" {
					tab = s.Events[i+1].Args[0].Args[0]
				}
			}
			if tab == nil {
				continue
			}
			wantP := mk("param", fk+"."+f.Params[1].Name(), f.Params[1].Type())
			typ := mk("init", "", nil, mk("field", "tableIter.typ", nil, tab))
			_ = typ
			w := witnessOf(p, s.St.trace)
			sought := false
			for _, e := range s.Events {
				if e.Op == "ev" && e.Aux == "(*blockIter).seek" && strings.Contains(e.Args[0].key, tab.key) {
					sought = true
				}
			}
			switch {
			case s.Kind == "ret" && !s.Panic && s.Vals[0] == tab:
				nRet++
				// returned child: of the wanted type and positioned by an in-block seek
				tfact := false
				for _, k := range sortedFactKeys(s.St) {
					v := s.St.facts[k]
					_ = v
					t := s.St.fterm[k]
					if t.Op == "eq" && v && strings.Contains(k, "tableIter.typ") && strings.Contains(k, tab.key) && t.contains(wantP) {
						tfact = true
					}
				}
				if !tfact || !sought {
					r.violate("DT-DESCEND", fk+" / the block returned has the wanted type and is positioned", p.pos(f.Pos()), "the index descent can return a block without checking that it is of the wanted type, or without positioning it at the key", w)
				} else {
					r.ok("DT-DESCEND", fk+" / the block returned has the wanted type and is positioned", "return child => child.typ = want.typ and in-block seek done")
				}
			case s.Kind == "back":
				nDesc++
				isIdx := false
				for _, k := range sortedFactKeys(s.St) {
					v := s.St.facts[k]
					_ = v
					t := s.St.fterm[k]
					if t.Op == "eq" && v && strings.Contains(k, "tableIter.typ") && strings.Contains(k, tab.key) && strings.Contains(k, "const[105]") {
						isIdx = true
					}
				}
				if !isIdx || !sought {
					r.violate("DT-DESCEND", fk+" / descends only into index blocks", p.pos(f.Pos()), "the descent continues into a block that was not checked to be an index block (or was not positioned at the key)", w)
				} else {
					r.ok("DT-DESCEND", fk+" / descends only into index blocks", "descend => child.typ = 'i' and positioned")
				}
			}
		}
		r.floor("DT-DESCEND.return", nRet, 1, "returns of a child block from the index descent")
		r.floor("DT-DESCEND.descend", nDesc, 1, "descent iterations")
	}
	guarded(r, []string{"DESCEND-DECREASES"}, func() { checkDescendDecreases(p, r) })
	guarded(r, []string{"SEEK-NO-SHORTCUT"}, func() { checkSeekNoShortcut(p, r) })
	guarded(r, []string{"SEEK-KEY-INTACT"}, func() { checkSeekKeyIntact(p, r) })
}

// READ-WIDTH: the table reader tells padded from unpadded blocks by looking at
// the byte after the block (block[sz] in the block-level newBlockReader), and
// steps to the next block by the table's block size when the block is padded.
// That probe exists only if the bytes handed down are wider than the block
// itself.  On every path of Reader.newBlockReader that opens a block, the read
// that produced the bytes asked for the table's block size, or the table has
// no block size, or it asked for the block's own size on a path where that
// size exceeds the table's block size (an oversized log block, never padded).
func checkReadWidth(p *Program, r *Report) {
	f := p.MustFunc("(*Reader).newBlockReader")
	fk := funcKey(f)
	cfg := &simCfg{
		Event:  map[string]bool{"(*Reader).getBlock": true, "newBlockReader": true},
		Keep:   map[string]bool{"(*Reader).getBlock": true, "newBlockReader": true},
		Pure:   map[string]bool{"extractBlockSize": true, "headerSize": true},
		Opaque: map[string]bool{"fmt.Errorf": true},
	}
	c, _ := runSim(p, f, cfg, nil)
	recv := mk("param", fk+"."+f.Params[0].Name(), nil)
	n := 0
	bad := ""
	var w []string
	for _, s := range c.Samples {
		if s.Kind != "ret" || s.Panic {
			continue
		}
		var open *Term
		var reads []*Term
		var results []*Term
		for i, e := range s.Events {
			if e.Op != "ev" {
				continue
			}
			switch e.Aux {
			case "(*Reader).getBlock":
				reads = append(reads, e)
				if i+1 < len(s.Events) && s.Events[i+1].Op == "evret" {
					results = append(results, s.Events[i+1].Args[0])
				} else {
					results = append(results, nil)
				}
			case "newBlockReader":
				open = e
			}
		}
		if open == nil {
			continue
		}
		n++
		// which read produced the bytes
		var width *Term
		for i, rd := range reads {
			if res := results[i]; res != nil && res.Op == "tuple" && res.Args[0] == open.Args[0] {
				width = rd.Args[2]
			}
		}
		if width == nil {
			bad = "the bytes handed to the block reader do not come from a read of this function"
			w = witnessOf(p, s.St.trace)
			continue
		}
		// the table's block size as this function sees it: the value it passes on
		tbs := open.Args[2]
		zero := tConst("0", nil)
		switch {
		case width == tbs && s.St.truth(tEq(tbs, zero)) != 1:
		case s.St.truth(tEq(tbs, zero)) == 1:
		case s.St.truth(tLt(tbs, width)) == 1:
		default:
			bad = "a block is opened from a read of " + width.String() + " bytes, which is neither the table's block size " + tbs.String() + " nor shown to exceed it: a full unpadded block is then taken for a padded one and the next block is looked for at the wrong offset"
			w = witnessOf(p, s.St.trace)
		}
	}
	_ = recv
	key := fk + " / a block is opened from a read at least as wide as the table's block size"
	if bad != "" {
		r.violate("READ-WIDTH", key, p.pos(f.Pos()), bad, w)
	} else {
		r.ok("READ-WIDTH", key, fmt.Sprintf("%d opening paths: width = block size, no block size, or own size > block size", n))
	}
	r.floor("READ-WIDTH", n, 2, "paths of "+fk+" that open a block")
}

// SINGLE-DECODER: how far a block iterator steps over a record is decided by
// that record's decoder and by nothing else.  A second, hand-written notion of
// "the size of a record" (a value-skipping fast path of the seek scan, say) can
// disagree with the decoder for some value type; the scan then continues in the
// middle of a record although a full scan of the same block is fine.  Every
// function that advances a block iterator's offset by an increment must invoke
// record.decode itself.
func checkSingleDecoder(p *Program, r *Report) {
	bi := p.namedType("blockIter")
	st, _ := bi.Underlying().(*types.Struct)
	off := -1
	for i := 0; st != nil && i < st.NumFields(); i++ {
		if b, ok := st.Field(i).Type().Underlying().(*types.Basic); ok && b.Kind() == types.Uint32 {
			off = i
		}
	}
	if off < 0 {
		fatalf("unresolved anchor: offset field (uint32) of blockIter")
	}
	n := 0
	for _, f := range p.Funcs {
		for _, b := range f.Blocks {
			for _, ins := range b.Instrs {
				sto, ok := ins.(*ssa.Store)
				if !ok {
					continue
				}
				fa, ok := sto.Addr.(*ssa.FieldAddr)
				if !ok || fa.Field != off {
					continue
				}
				pt, ok := fa.X.Type().Underlying().(*types.Pointer)
				if !ok || !types.Identical(pt.Elem(), bi) {
					continue
				}
				add, ok := sto.Val.(*ssa.BinOp)
				if !ok || add.Op != token.ADD {
					continue // a reset to a restart point or to the start of the block
				}
				isIncr := false
				for _, opnd := range []ssa.Value{add.X, add.Y} {
					if ld, ok := opnd.(*ssa.UnOp); ok && ld.Op == token.MUL {
						if fa2, ok := ld.X.(*ssa.FieldAddr); ok && fa2.Field == off {
							if pt2, ok := fa2.X.Type().Underlying().(*types.Pointer); ok && types.Identical(pt2.Elem(), bi) {
								isIncr = true
							}
						}
					}
				}
				if !isIncr {
					continue
				}
				n++
				decodes := len(callsDirect(f, "method:(record).decode")) > 0
				key := funcKey(f) + " / the offset advances by what the record decoder consumed"
				if !decodes {
					r.violate("SINGLE-DECODER", key, p.pos(sto.Pos()), funcKey(f)+" advances the block iterator by an amount that does not come from record.decode: a second implementation of record sizes can disagree with the decoder for some value type, and a seek then lands inside a record", nil)
				} else {
					r.ok("SINGLE-DECODER", key, "the advancing function invokes record.decode")
				}
			}
		}
	}
	r.floor("SINGLE-DECODER", n, 1, "functions advancing a block iterator's offset")
}

func checkDescendDecreases(p *Program, r *Report) {
	keyName := "method:(record).key"
	// ---- DESCEND-DECREASES: termination of the index descent on hostile tables.
	// Index blocks are written after the blocks they index, so a descent step
	// must lead to a strictly lower offset than the index block it was read
	// from; otherwise an entry pointing at its own (or a later) index block
	// makes the descent loop for ever.  Ranking function: an unsigned field of
	// the table iterator whose Next feeds the loop.  At every back edge of the
	// descent loop the field's value in the iterator handed to the next round
	// is provably smaller than its value in this round's iterator at the head
	// of the round.  (Which field is found by trying the unsigned fields.)
	{
		f := p.MustFunc("(*Reader).seekIndexed")
		fk := funcKey(f)
		cfg := &simCfg{Event: map[string]bool{"(*tableIter).Next": true, "(*blockIter).seek": true, "(*blockReader).seek": true, "(*Reader).seekLinear": true},
			Pure:   map[string]bool{keyName: true, "method:(record).typ": true, "(*blockReader).getType": true},
			Opaque: map[string]bool{"newRecord": true, "(*Reader).newBlockReader": true, "(*Reader).start": true}, BackVals: true}
		c, _ := runSim(p, f, cfg, nil)
		n := 0
		for _, s := range c.Samples {
			if s.Kind != "back" || s.HeadSt == nil {
				continue
			}
			// this iteration's Next on a table iterator
			var recv *Term
			for _, e := range s.Events {
				if e.Op == "ev" && e.Aux == "(*tableIter).Next" {
					recv = e.Args[0]
				}
			}
			if recv == nil {
				continue
			}
			n++
			next := recv
			var names []string
			for nm := range s.HeadVals {
				names = append(names, nm)
			}
			sort.Strings(names)
			for _, nm := range names {
				if s.HeadVals[nm] == recv && s.NextVals[nm] != nil {
					next = s.NextVals[nm]
				}
			}
			decreases, tried := false, 0
			if pt, ok := recv.Typ.Underlying().(*types.Pointer); ok && recv.Typ != nil {
				if nt, ok := pt.Elem().(*types.Named); ok {
					if stt, ok := nt.Underlying().(*types.Struct); ok {
						for i := 0; i < stt.NumFields(); i++ {
							bt, ok := stt.Field(i).Type().Underlying().(*types.Basic)
							if !ok || bt.Info()&types.IsUnsigned == 0 {
								continue
							}
							tried++
							old := a_load(s.HeadSt, mk("field", fieldAux(nt, i), nil, recv))
							nw := a_load(s.St, mk("field", fieldAux(nt, i), nil, next))
							if s.St.truth(tLt(nw, old)) == 1 || provedLt(s.St, nw, old) {
								decreases = true
							}
						}
					}
				}
			}
			w := witnessOf(p, s.St.trace)
			if !decreases {
				r.violate("DESCEND-DECREASES", fk+" / every descent step leads to a lower offset", p.pos(f.Pos()), "the index descent goes round again without an unsigned field of its table iterator (the offset of the index block being read) having become smaller: an index entry that points at its own or a later index block (damaged or hostile table) makes the seek loop for ever", w)
			} else {
				r.ok("DESCEND-DECREASES", fk+" / every descent step leads to a lower offset", "at every back edge the block offset of the iterator handed on is below that of the iterator read in this round (ranking function of the loop)")
			}
		}
		r.floor("DESCEND-DECREASES", n, 1, "back edges of the index descent")
	}
}

// guarded runs one rule block; if it loses its anchor (or runs out of its
// analysis budget) the rules it decides are reported as UNDECIDED and the
// caller goes on with its other rule blocks.
func guarded(r *Report, rules []string, f func()) {
	defer func() {
		if e := recover(); e != nil {
			ae, ok := e.(analysisError)
			if !ok {
				panic(e)
			}
			r.violate("UNDECIDED", "anchor / "+ae.msg, "-", "the analysis cannot resolve a construct its rules ("+strings.Join(rules, ", ")+") are anchored in ("+ae.msg+"): the structural condition they decide is not established on this tree", nil)
		}
	}()
	f()
}

// SEEK-NO-SHORTCUT (C02): a seek yields the scan suffix from the key on, which
// may well start at a later key than the one asked for.  The only thing a
// table can say without reading a block is "I have no section of that kind".
// On every path of the Reader's record seek that answers with the iterator that
// never yields (and no error) without having called the block-level seek, the
// section was found absent; nothing about the key decides it.
func checkSeekNoShortcut(p *Program, r *Report) {
	// the iterator that never yields: Next is one block returning (false, nil)
	var emptyT *types.Named
	for _, f := range p.Funcs {
		if f.Name() != "Next" || f.Signature.Recv() == nil || len(f.Blocks) != 1 {
			continue
		}
		ret, ok := f.Blocks[0].Instrs[len(f.Blocks[0].Instrs)-1].(*ssa.Return)
		if !ok || len(ret.Results) != 2 {
			continue
		}
		c0, ok0 := ret.Results[0].(*ssa.Const)
		c1, ok1 := ret.Results[1].(*ssa.Const)
		if !ok0 || !ok1 || c0.Value == nil || c0.Value.String() != "false" || !c1.IsNil() {
			continue
		}
		rt := f.Signature.Recv().Type()
		if pt, ok := rt.(*types.Pointer); ok {
			rt = pt.Elem()
		}
		if n, ok := rt.(*types.Named); ok {
			emptyT = n
		}
	}
	if emptyT == nil {
		fatalf("unresolved anchor: the iterator type that never yields")
	}
	readerT := p.namedType("Reader")
	n := 0
	for _, f := range p.Funcs {
		sig := f.Signature
		if f.Parent() != nil || sig.Recv() == nil || sig.Params().Len() != 1 || sig.Results().Len() != 2 {
			continue
		}
		if pt, ok := sig.Recv().Type().(*types.Pointer); !ok || !types.Identical(pt.Elem(), readerT) {
			continue
		}
		if _, ok := sig.Params().At(0).Type().Underlying().(*types.Interface); !ok {
			continue
		}
		if _, ok := sig.Results().At(0).Type().Underlying().(*types.Interface); !ok || types.TypeString(sig.Results().At(1).Type(), nil) != "error" {
			continue
		}
		fk := funcKey(f)
		cfg := &simCfg{Event: map[string]bool{"(*Reader).seek": true}, Pure: map[string]bool{"method:(record).typ": true, "method:(record).key": true}, NoLoopSamples: true}
		c, _ := runSim(p, f, cfg, nil)
		for _, s := range c.Samples {
			if s.Kind != "ret" || s.Panic || s.St.truth(tEq(s.Vals[1], tNil)) == 0 {
				continue
			}
			v := s.Vals[0]
			if v.Op != "alloc" || v.Typ == nil || !types.Identical(v.Typ, emptyT) {
				continue
			}
			if hasEvent(s.Events, "(*Reader).seek") != nil {
				continue // answered after reading
			}
			n++
			absent := false
			for _, k := range sortedFactKeys(s.St) {
				t := s.St.fterm[k]
				if t != nil && !s.St.facts[k] && strings.Contains(k, "Present") {
					absent = true
				}
			}
			key := fk + " / 'no records' without reading only for an absent section"
			// no other branch may have been decided on the way
			nFacts := 0
			for _, k := range sortedFactKeys(s.St) {
				if !strings.Contains(k, "Present") {
					nFacts++
				}
			}
			if !absent || nFacts > 0 {
				r.violate("SEEK-NO-SHORTCUT", key, p.pos(f.Pos()), "the table answers a seek with the iterator that never yields, without reading a block, on a path decided by something else than the absence of the section (for instance the key or update index sought): records after the sought key that belong to the scan suffix are not returned", witnessOf(p, s.St.trace))
			} else {
				r.ok("SEEK-NO-SHORTCUT", key, "empty answer without reading => section not present, and nothing else was tested")
			}
		}
	}
	r.floor("SEEK-NO-SHORTCUT", n, 1, "paths of the Reader's record seek answering with the never-yielding iterator before reading")
}

// SEEK-KEY-INTACT (C02, C03): the record that says what is sought is an input.
// A merged seek hands the same record to every table in turn, so a table whose
// seek writes into it (decodes a peeked key into it, say) makes the newer
// tables seek something else.  Effects rule over the resolved call graph: the
// record parameter of a table's seek method is never the receiver of a record
// method that stores into its receiver, and is never passed on to a parameter
// for which that holds (interface calls resolved to every implementation).
func checkSeekKeyIntact(p *Program, r *Report) {
	cg := buildCallGraph(p)
	_ = cg
	// record methods that write their receiver
	writesRecv := map[*ssa.Function]bool{}
	for _, f := range p.Funcs {
		if f.Signature.Recv() == nil || len(f.Params) == 0 || f.Parent() != nil {
			continue
		}
		recv := f.Params[0]
		for _, b := range f.Blocks {
			for _, ins := range b.Instrs {
				sto, ok := ins.(*ssa.Store)
				if !ok {
					continue
				}
				a := sto.Addr
				for {
					if fa, ok := a.(*ssa.FieldAddr); ok {
						a = fa.X
						continue
					}
					break
				}
				if a == ssa.Value(recv) {
					writesRecv[f] = true
				}
			}
		}
	}
	implsOf := func(c *ssa.CallCommon) []*ssa.Function {
		if !c.IsInvoke() {
			if g := c.StaticCallee(); g != nil {
				return []*ssa.Function{g}
			}
			return nil
		}
		iface, ok := c.Value.Type().Underlying().(*types.Interface)
		if !ok {
			return nil
		}
		var res []*ssa.Function
		for _, f := range p.Funcs {
			if f.Signature.Recv() == nil || f.Name() != c.Method.Name() || f.Parent() != nil {
				continue
			}
			if types.Implements(f.Signature.Recv().Type(), iface) {
				res = append(res, f)
			}
		}
		return res
	}
	// W: (function, parameter index) through which the function may write the record
	type fp struct {
		f *ssa.Function
		i int
	}
	W := map[fp]bool{}
	for f := range writesRecv {
		W[fp{f, 0}] = true
	}
	flowsFrom := func(v ssa.Value, pa *ssa.Parameter) bool {
		seen := map[ssa.Value]bool{}
		var rec func(v ssa.Value) bool
		rec = func(v ssa.Value) bool {
			if v == ssa.Value(pa) {
				return true
			}
			if seen[v] {
				return false
			}
			seen[v] = true
			switch x := v.(type) {
			case *ssa.ChangeInterface:
				return rec(x.X)
			case *ssa.MakeInterface:
				return rec(x.X)
			case *ssa.ChangeType:
				return rec(x.X)
			case *ssa.TypeAssert:
				return rec(x.X)
			case *ssa.Phi:
				for _, e := range x.Edges {
					if rec(e) {
						return true
					}
				}
			}
			return false
		}
		return rec(v)
	}
	for changed := true; changed; {
		changed = false
		for _, f := range p.Funcs {
			for pi, pa := range f.Params {
				if W[fp{f, pi}] {
					continue
				}
				hit := false
				for _, b := range f.Blocks {
					for _, ins := range b.Instrs {
						ci, ok := ins.(ssa.CallInstruction)
						if !ok {
							continue
						}
						c := ci.Common()
						impls := implsOf(c)
						if c.IsInvoke() {
							if flowsFrom(c.Value, pa) {
								for _, g := range impls {
									if W[fp{g, 0}] {
										hit = true
									}
								}
							}
							for ai, a := range c.Args {
								if flowsFrom(a, pa) {
									for _, g := range impls {
										if W[fp{g, ai + 1}] {
											hit = true
										}
									}
								}
							}
						} else {
							for ai, a := range c.Args {
								if flowsFrom(a, pa) {
									for _, g := range impls {
										if W[fp{g, ai}] {
											hit = true
										}
									}
								}
							}
						}
					}
				}
				if hit {
					W[fp{f, pi}] = true
					changed = true
				}
			}
		}
	}
	// the seek methods of tables: methods named like the Table interface's
	// record-seek method (one parameter of the record interface type)
	n := 0
	for _, f := range p.Funcs {
		sig := f.Signature
		if f.Parent() != nil || sig.Recv() == nil || sig.Params().Len() != 1 || sig.Results().Len() != 2 {
			continue
		}
		if _, ok := sig.Params().At(0).Type().Underlying().(*types.Interface); !ok {
			continue
		}
		if _, ok := sig.Results().At(0).Type().Underlying().(*types.Interface); !ok || types.TypeString(sig.Results().At(1).Type(), nil) != "error" {
			continue
		}
		n++
		key := funcKey(f) + " / the record sought is not written"
		if W[fp{f, 1}] {
			r.violate("SEEK-KEY-INTACT", key, p.pos(f.Pos()), "a table's seek can write into the record that says what is sought (it reaches a record method that stores into its receiver, such as decode, with that record): a merged seek hands the same record to the next table, which then seeks another key", nil)
		} else {
			r.ok("SEEK-KEY-INTACT", key, "the sought record reaches no method that stores into its receiver")
		}
	}
	r.floor("SEEK-KEY-INTACT", n, 2, "record-seek methods of tables")
}
