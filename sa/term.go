package main

import (
	"crypto/sha256"
	"encoding/hex"
	"go/types"
	"sort"
	"strconv"
	"strings"
)

// Term is a hash-consed canonical term of the abstract value language used
// by the path simulator.  Terms are never evaluated to concrete program
// data; they only record *how* a value was obtained so that two occurrences
// of the same access path, callee result or lock-file name can be recognised
// as the same thing on a path.
type Term struct {
	Op   string
	Aux  string
	Args []*Term
	Typ  types.Type
	key  string
}

var termTab = map[string]*Term{}

const maxKeyLen = 1 << 16

func mk(op, aux string, typ types.Type, args ...*Term) *Term {
	var b strings.Builder
	b.WriteString(op)
	b.WriteByte('[')
	b.WriteString(aux)
	b.WriteByte(']')
	if len(args) > 0 {
		b.WriteByte('(')
		for i, a := range args {
			if i > 0 {
				b.WriteByte(',')
			}
			if a == nil {
				b.WriteString("<nil>")
			} else {
				b.WriteString(a.key)
			}
		}
		b.WriteByte(')')
	}
	k := b.String()
	if len(k) > maxKeyLen {
		// a value that keeps growing (a struct copied into itself round after
		// round of a loop): the key is replaced by a digest so that the keys of
		// the terms built on top of it stay bounded; identity is preserved
		sum := sha256.Sum256([]byte(k))
		k = op + "[" + aux + "](big#" + hex.EncodeToString(sum[:12]) + ")"
	}
	if t, ok := termTab[k]; ok {
		return t
	}
	t := &Term{Op: op, Aux: aux, Args: args, Typ: typ, key: k}
	termTab[k] = t
	return t
}

// resetTerms empties the hash-consing table (keeping the package-level
// constants): terms carry types.Type values of the program they were built
// for, so a second program analysed in the same process must not find them.
func resetTerms() {
	termTab = map[string]*Term{}
	for _, t := range []*Term{tNil, tTrue, tFalse} {
		termTab[t.key] = t
	}
}

func (t *Term) Key() string { return t.key }

// String renders a readable form for reports.
func (t *Term) String() string {
	if t == nil {
		return "<nil>"
	}
	if len(t.key) > 4000 || strings.Contains(t.key, "](big#") && strings.HasSuffix(t.key, ")") && strings.HasPrefix(t.key, t.Op+"["+t.Aux+"](big#") {
		return t.Op + "(…)"
	}
	switch t.Op {
	case "const":
		return t.Aux
	case "param", "free":
		return t.Aux
	case "global":
		return "&" + t.Aux
	case "gval":
		return t.Aux
	case "field":
		return t.Args[0].String() + "." + t.Aux
	case "init":
		return "*" + t.Args[0].String()
	case "not":
		return "!(" + t.Args[0].String() + ")"
	case "eq":
		return t.Args[0].String() + " == " + t.Args[1].String()
	case "lt":
		return t.Args[0].String() + " < " + t.Args[1].String()
	case "bin":
		return "(" + t.Args[0].String() + " " + t.Aux + " " + t.Args[1].String() + ")"
	case "err":
		return "err:" + t.Aux
	}
	short := func(a string) string {
		if i := strings.LastIndex(a, "/"); i >= 0 {
			return a[i+1:]
		}
		return a
	}
	switch t.Op {
	case "loopcur":
		return "cur@" + short(t.Aux)
	case "loopall":
		return "all@" + short(t.Aux)
	case "nomark":
		return ""
	case "loopvar":
		return t.Aux + "[" + t.Args[0].String() + "]"
	case "elem":
		return t.Args[0].String() + "[" + t.Args[1].String() + "]"
	case "draw":
		return "draw(" + t.Args[0].String() + " @" + t.Args[1].String() + ")"
	case "site":
		return ""
	case "pathjoin":
		var as []string
		for _, a := range t.Args {
			as = append(as, a.String())
		}
		return strings.Join(as, "/")
	}
	s := t.Op
	if t.Aux != "" {
		s += ":" + short(t.Aux)
	}
	if len(t.Args) > 0 {
		var as []string
		for _, a := range t.Args {
			if r := a.String(); r != "" {
				as = append(as, r)
			}
		}
		if len(as) > 0 {
			s += "(" + strings.Join(as, ", ") + ")"
		}
	}
	return s
}

func tConst(v string, typ types.Type) *Term { return mk("const", v, typ) }

var (
	tNil   = tConst("nil", nil)
	tTrue  = tConst("true", types.Typ[types.Bool])
	tFalse = tConst("false", types.Typ[types.Bool])
)

func tBool(b bool) *Term {
	if b {
		return tTrue
	}
	return tFalse
}

func (t *Term) isConst() bool { return t.Op == "const" }
func (t *Term) isNilConst() bool {
	return t.Op == "const" && t.Aux == "nil"
}

// tNot builds the canonical negation.
func tNot(a *Term) *Term {
	if a == tTrue {
		return tFalse
	}
	if a == tFalse {
		return tTrue
	}
	if a.Op == "not" {
		return a.Args[0]
	}
	return mk("not", "", types.Typ[types.Bool], a)
}

// tEq builds the canonical equality atom (arguments ordered by key).
func tEq(a, b *Term) *Term {
	if a == b {
		return tTrue
	}
	if a.isConst() && b.isConst() {
		return tBool(a.Aux == b.Aux)
	}
	if a.key > b.key {
		a, b = b, a
	}
	return mk("eq", "", types.Typ[types.Bool], a, b)
}

// tLt builds the canonical strict-order atom.  Normalisations:
//
//	a+c1 < c2      ->  a < c2-c1          (constants)
//	a < b+1        ->  !(b < a)            (integers)
func tLt(a, b *Term) *Term {
	if a == b {
		return tFalse
	}
	if ia, ok := termInt(a); ok {
		if ib, ok := termInt(b); ok {
			return tBool(ia < ib)
		}
	}
	if a.Op == "bin" && a.Aux == "+" {
		if c1, ok := termInt(a.Args[1]); ok {
			if c2, ok := termInt(b); ok {
				return tLt(a.Args[0], tConst(strconv.FormatInt(c2-c1, 10), b.Typ))
			}
		}
	}
	if b.Op == "bin" && b.Aux == "+" {
		if c, ok := termInt(b.Args[1]); ok && c == 1 {
			return tNot(tLt(b.Args[0], a))
		}
	}
	// x - 1 < y  <=>  !(y < x)   (signed integers; positions and counts)
	if a.Op == "bin" && a.Aux == "-" && !isUnsignedTerm(a) {
		if c, ok := termInt(a.Args[1]); ok && c == 1 {
			return tNot(tLt(b, a.Args[0]))
		}
	}
	return mk("lt", "", types.Typ[types.Bool], a, b)
}

func termInt(t *Term) (int64, bool) {
	if t.Op != "const" {
		return 0, false
	}
	n, err := strconv.ParseInt(t.Aux, 10, 64)
	return n, err == nil
}

// contains reports whether sub occurs in t.
func (t *Term) contains(sub *Term) bool {
	if t == sub {
		return true
	}
	for _, a := range t.Args {
		if a != nil && a.contains(sub) {
			return true
		}
	}
	return false
}

// containsOp reports whether a subterm with the given Op (and Aux prefix) occurs.
func (t *Term) containsOp(op string) bool {
	if t.Op == op {
		return true
	}
	for _, a := range t.Args {
		if a != nil && a.containsOp(op) {
			return true
		}
	}
	return false
}

// subst replaces every occurrence of from by to.
func (t *Term) subst(from, to *Term) *Term {
	if t == nil {
		return nil
	}
	if t == from {
		return to
	}
	if len(t.Args) == 0 {
		return t
	}
	changed := false
	na := make([]*Term, len(t.Args))
	for i, a := range t.Args {
		na[i] = a.subst(from, to)
		if na[i] != a {
			changed = true
		}
	}
	if !changed {
		return t
	}
	return rebuild(t, na)
}

// rebuild re-creates t with new arguments, re-normalising set-like terms.
func rebuild(t *Term, na []*Term) *Term {
	switch t.Op {
	case "list":
		return tList(t.Aux == "exact", na)
	case "eq":
		return tEq(na[0], na[1])
	case "not":
		return tNot(na[0])
	}
	return mk(t.Op, t.Aux, t.Typ, na...)
}

// tList builds an abstract list.  exact lists keep order and multiplicity;
// inexact ones are a sorted set of member terms ("every element is one of
// these; the list may be empty").
func tList(exact bool, members []*Term) *Term {
	if exact {
		return mk("list", "exact", nil, members...)
	}
	seen := map[string]bool{}
	var ms []*Term
	for _, m := range members {
		if m.Op == "anyelem" && m.Args[0].Op == "list" {
			for _, mm := range m.Args[0].Args {
				if !seen[mm.key] {
					seen[mm.key] = true
					ms = append(ms, mm)
				}
			}
			continue
		}
		if !seen[m.key] {
			seen[m.key] = true
			ms = append(ms, m)
		}
	}
	sort.Slice(ms, func(i, j int) bool { return ms[i].key < ms[j].key })
	return mk("list", "set", nil, ms...)
}

func (t *Term) isList() bool { return t.Op == "list" }

// listMembers returns the member terms of an abstract collection value, or
// for an opaque slice the single summary member anyelem(slice).
func listMembers(t *Term) []*Term {
	switch {
	case t.isNilConst():
		return nil
	case t.Op == "list":
		return t.Args
	}
	return []*Term{mk("anyelem", "", nil, t)}
}

// walk visits all subterms.
func (t *Term) walk(f func(*Term)) {
	if t == nil {
		return
	}
	f(t)
	for _, a := range t.Args {
		a.walk(f)
	}
}
