package main

import (
	"fmt"
	"go/types"
	"sort"

	"golang.org/x/tools/go/ssa"
)

// SIDE-ARRAY (C18): parallel arrays.  When code on the read paths indexes two
// slice fields of one object with the same index value (mergedIter.stack and
// its side array of table names, read when an error message is built), the
// access to the second is in range only if the two fields always have the same
// length.  The rule discovers such field pairs from the indexing sites and then
// requires of every function of the package that stores to either field: within
// one straight-line stretch of code the two fields are either both appended to
// by the same number of elements, or both set to values of the same length
// (both absent in a literal, both made with the same length expression, both
// nil).  This is the shape invariant "len(F1) == len(F2)" checked as a pairing
// discipline; it needs no reasoning about the index itself.

type sidePair struct {
	t      *types.Named
	f1, f2 int
	where  string
}

func sliceField(st *types.Struct, i int) bool {
	_, ok := st.Field(i).Type().Underlying().(*types.Slice)
	return ok
}

// fieldLoad: v is a load of field i of a named struct through base.
func fieldLoad(v ssa.Value) (base ssa.Value, t *types.Named, field int, ok bool) {
	u, isU := v.(*ssa.UnOp)
	if !isU {
		return nil, nil, 0, false
	}
	fa, isFA := u.X.(*ssa.FieldAddr)
	if !isFA {
		return nil, nil, 0, false
	}
	pt, isP := fa.X.Type().Underlying().(*types.Pointer)
	if !isP {
		return nil, nil, 0, false
	}
	n, isN := pt.Elem().(*types.Named)
	if !isN {
		return nil, nil, 0, false
	}
	return fa.X, n, fa.Field, true
}

func discoverSidePairs(p *Program, reach map[*ssa.Function]bool) []sidePair {
	seen := map[string]bool{}
	var res []sidePair
	for f := range reach {
		type use struct {
			base  ssa.Value
			t     *types.Named
			field int
			pos   string
		}
		byIdx := map[ssa.Value][]use{}
		for _, b := range f.Blocks {
			for _, ins := range b.Instrs {
				ia, ok := ins.(*ssa.IndexAddr)
				if !ok {
					continue
				}
				if _, isC := ia.Index.(*ssa.Const); isC {
					continue
				}
				base, t, fi, ok := fieldLoad(ia.X)
				if !ok {
					continue
				}
				byIdx[ia.Index] = append(byIdx[ia.Index], use{base, t, fi, p.pos(ia.Pos())})
			}
		}
		for _, us := range byIdx {
			for _, a := range us {
				for _, b := range us {
					if a.base != b.base || a.t != b.t || a.field >= b.field {
						continue
					}
					k := fmt.Sprintf("%s.%d.%d", a.t.Obj().Name(), a.field, b.field)
					if !seen[k] {
						seen[k] = true
						res = append(res, sidePair{a.t, a.field, b.field, funcKey(f) + " (" + b.pos + ")"})
					}
				}
			}
		}
	}
	sort.Slice(res, func(i, j int) bool {
		if res[i].t.Obj().Name() != res[j].t.Obj().Name() {
			return res[i].t.Obj().Name() < res[j].t.Obj().Name()
		}
		if res[i].f1 != res[j].f1 {
			return res[i].f1 < res[j].f1
		}
		return res[i].f2 < res[j].f2
	})
	return res
}

// lenDesc describes the length of a value stored into a slice field, as far as
// it can be compared structurally: "nil", "make:<expr>", "same:<expr>".
func exprKey(v ssa.Value, depth int) string {
	if depth > 6 {
		return "?" + v.Name()
	}
	switch x := v.(type) {
	case *ssa.Const:
		return "const:" + x.String()
	case *ssa.Parameter:
		return "param:" + x.Name()
	case *ssa.UnOp:
		return "un" + x.Op.String() + "(" + exprKey(x.X, depth+1) + ")"
	case *ssa.FieldAddr:
		return fmt.Sprintf("fa%d(%s)", x.Field, exprKey(x.X, depth+1))
	case *ssa.Call:
		if b, ok := x.Call.Value.(*ssa.Builtin); ok && b.Name() == "len" {
			return "len(" + exprKey(x.Call.Args[0], depth+1) + ")"
		}
	case *ssa.Convert:
		return "conv(" + exprKey(x.X, depth+1) + ")"
	case *ssa.BinOp:
		return "bin" + x.Op.String() + "(" + exprKey(x.X, depth+1) + "," + exprKey(x.Y, depth+1) + ")"
	}
	return "v:" + v.Name()
}

type sideStore struct {
	base  ssa.Value
	field int
	// delta > 0: append of delta elements to the field's own value; otherwise set
	delta int
	val   ssa.Value // the value set (delta == 0)
	pos   string
}

// appendOf: v = append(base, k elements)
func appendOf(v ssa.Value) (base ssa.Value, k int, ok bool) {
	c, isC := v.(*ssa.Call)
	if !isC {
		return nil, 0, false
	}
	b, isB := c.Call.Value.(*ssa.Builtin)
	if !isB || b.Name() != "append" || len(c.Call.Args) != 2 {
		return nil, 0, false
	}
	sl, isS := c.Call.Args[1].(*ssa.Slice)
	if !isS || sl.Low != nil || sl.High != nil {
		return nil, 0, false
	}
	al, isA := sl.X.(*ssa.Alloc)
	if !isA {
		return nil, 0, false
	}
	at, isArr := al.Type().Underlying().(*types.Pointer).Elem().Underlying().(*types.Array)
	if !isArr {
		return nil, 0, false
	}
	return c.Call.Args[0], int(at.Len()), true
}

// sameLen: the two slice values have the same length on every path
// (structurally: both nil, made with the same length expression, appended to
// in step, or phis of the same block whose incoming values pair up).  nil
// stands for an absent field of a literal.
func sameLen(a, b ssa.Value, assumed map[[2]ssa.Value]bool) bool {
	isNil := func(v ssa.Value) bool {
		if v == nil {
			return true
		}
		c, ok := v.(*ssa.Const)
		return ok && c.IsNil()
	}
	if isNil(a) && isNil(b) {
		return true
	}
	if isNil(a) || isNil(b) {
		v := a
		if isNil(a) {
			v = b
		}
		if m, ok := v.(*ssa.MakeSlice); ok {
			if c, ok := m.Len.(*ssa.Const); ok && c.Value != nil && c.Int64() == 0 {
				return true
			}
		}
		return false
	}
	if a == b {
		return true
	}
	k := [2]ssa.Value{a, b}
	if assumed[k] {
		return true
	}
	switch x := a.(type) {
	case *ssa.MakeSlice:
		y, ok := b.(*ssa.MakeSlice)
		return ok && exprKey(x.Len, 0) == exprKey(y.Len, 0)
	case *ssa.Phi:
		y, ok := b.(*ssa.Phi)
		if !ok || x.Block() != y.Block() {
			return false
		}
		assumed[k] = true
		for i := range x.Edges {
			if !sameLen(x.Edges[i], y.Edges[i], assumed) {
				return false
			}
		}
		return true
	case *ssa.Call:
		ab, ak, ok1 := appendOf(a)
		bb, bk, ok2 := appendOf(b)
		return ok1 && ok2 && ak == bk && sameLen(ab, bb, assumed)
	case *ssa.Extract:
		// two results of one call of a function of this package: its returns pair up
		y, ok := b.(*ssa.Extract)
		if !ok || x.Tuple != y.Tuple {
			return false
		}
		c, ok := x.Tuple.(*ssa.Call)
		if !ok {
			return false
		}
		g := c.Call.StaticCallee()
		if g == nil || len(g.Blocks) == 0 || g.Pkg != x.Parent().Pkg {
			return false
		}
		assumed[k] = true
		n := 0
		for _, gb := range g.Blocks {
			ret, ok := gb.Instrs[len(gb.Instrs)-1].(*ssa.Return)
			if !ok || len(ret.Results) <= x.Index || len(ret.Results) <= y.Index {
				continue
			}
			n++
			if !sameLen(ret.Results[x.Index], ret.Results[y.Index], assumed) {
				return false
			}
		}
		return n > 0
	case *ssa.Parameter:
		// two parameters of one function: the arguments pair up at every call
		y, ok := b.(*ssa.Parameter)
		if !ok || x.Parent() != y.Parent() {
			return false
		}
		fn := x.Parent()
		ix, iy := -1, -1
		for i, pa := range fn.Params {
			if pa == x {
				ix = i
			}
			if pa == y {
				iy = i
			}
		}
		if ix < 0 || iy < 0 || fn.Pkg == nil {
			return false
		}
		assumed[k] = true
		n := 0
		for _, mem := range fn.Pkg.Members {
			var fs []*ssa.Function
			switch m := mem.(type) {
			case *ssa.Function:
				fs = append(fs, m)
			case *ssa.Type:
				for _, t := range []types.Type{m.Type(), types.NewPointer(m.Type())} {
					ms := fn.Prog.MethodSets.MethodSet(t)
					for i := 0; i < ms.Len(); i++ {
						if mf := fn.Prog.MethodValue(ms.At(i)); mf != nil && mf.Synthetic == "" {
							fs = append(fs, mf)
						}
					}
				}
			}
			for len(fs) > 0 {
				f := fs[0]
				fs = fs[1:]
				fs = append(fs, f.AnonFuncs...)
				for _, bb := range f.Blocks {
					for _, ins := range bb.Instrs {
						for _, op := range ins.Operands(nil) {
							if *op == ssa.Value(fn) {
								ci, isCall := ins.(ssa.CallInstruction)
								if !isCall || ci.Common().Value != ssa.Value(fn) {
									return false // used as a value: callers unknown
								}
							}
						}
						ci, isCall := ins.(ssa.CallInstruction)
						if !isCall || ci.Common().StaticCallee() != fn {
							continue
						}
						n++
						if !sameLen(ci.Common().Args[ix], ci.Common().Args[iy], assumed) {
							return false
						}
					}
				}
			}
		}
		return n > 0
	}
	return false
}

func classifySideStore(p *Program, sto *ssa.Store, fa *ssa.FieldAddr) sideStore {
	s := sideStore{base: fa.X, field: fa.Field, pos: p.pos(sto.Pos())}
	// append(x.F, elems...) with x.F the field's own current value
	if ab, k, ok := appendOf(sto.Val); ok {
		if base, _, fi, ok := fieldLoad(ab); ok && base == fa.X && fi == fa.Field {
			s.delta = k
			return s
		}
	}
	s.val = sto.Val
	return s
}

func checkSideArrays(p *Program, r *Report, reach map[*ssa.Function]bool) {
	pairs := discoverSidePairs(p, reach)
	for _, pr := range pairs {
		st := pr.t.Underlying().(*types.Struct)
		n1, n2 := fname(st.Field(pr.f1)), fname(st.Field(pr.f2))
		key := fmt.Sprintf("%s.%s / %s.%s stay the same length", pr.t.Obj().Name(), n1, pr.t.Obj().Name(), n2)
		bad, badPos := "", ""
		nStores := 0
		for _, f := range p.Funcs {
			// stretches: maximal chains of blocks linked by single-successor /
			// single-predecessor edges
			head := map[*ssa.BasicBlock]*ssa.BasicBlock{}
			for _, b := range f.Blocks {
				h := b
				for len(h.Preds) == 1 && len(h.Preds[0].Succs) == 1 && h.Preds[0] != b {
					h = h.Preds[0]
				}
				head[b] = h
			}
			type acc struct {
				d1, d2  int
				v1, v2  ssa.Value
				set1    bool
				set2    bool
				pos     string
				literal bool
			}
			groups := map[string]*acc{}
			var order []string
			for _, b := range f.Blocks {
				for _, ins := range b.Instrs {
					sto, ok := ins.(*ssa.Store)
					if !ok {
						continue
					}
					fa, ok := sto.Addr.(*ssa.FieldAddr)
					if !ok || (fa.Field != pr.f1 && fa.Field != pr.f2) {
						continue
					}
					pt, ok := fa.X.Type().Underlying().(*types.Pointer)
					if !ok || !types.Identical(pt.Elem(), pr.t) {
						continue
					}
					nStores++
					gk := fmt.Sprintf("%d/%s", head[b].Index, fa.X.Name())
					g := groups[gk]
					if g == nil {
						g = &acc{}
						groups[gk] = g
						order = append(order, gk)
						// a fresh object (composite literal): absent fields are nil
						if al, ok := fa.X.(*ssa.Alloc); ok && al.Block() == b || ok && head[al.Block()] == head[b] {
							g.literal = true
						}
					}
					ss := classifySideStore(p, sto, fa)
					g.pos = ss.pos
					if fa.Field == pr.f1 {
						if ss.delta > 0 {
							g.d1 += ss.delta
						} else {
							g.v1, g.set1, g.d1 = ss.val, true, 0
						}
					} else {
						if ss.delta > 0 {
							g.d2 += ss.delta
						} else {
							g.v2, g.set2, g.d2 = ss.val, true, 0
						}
					}
				}
			}
			for _, gk := range order {
				g := groups[gk]
				ok := g.d1 == g.d2
				switch {
				case g.set1 && g.set2:
					ok = ok && sameLen(g.v1, g.v2, map[[2]ssa.Value]bool{})
				case g.set1 || g.set2:
					// one field set alone: only in a literal, where the other is nil
					ok = ok && g.literal && sameLen(g.v1, g.v2, map[[2]ssa.Value]bool{})
				}
				l1, l2 := "unchanged", "unchanged"
				if g.set1 {
					l1 = "set"
				}
				if g.set2 {
					l2 = "set"
				}
				if !ok && bad == "" {
					bad = fmt.Sprintf("in %s the two fields are not updated in step (%s: %s, %d appended; %s: %s, %d appended)", funcKey(f), n1, l1, g.d1, n2, l2, g.d2)
					badPos = g.pos
				}
			}
		}
		if bad != "" {
			r.violate("SIDE-ARRAY", key, badPos, "two slice fields that the read path indexes with one index ("+pr.where+") can get different lengths: "+bad+"; an access that is in range for one is then out of range for the other and a damaged table makes the lookup panic instead of returning an error", nil)
		} else {
			r.ok("SIDE-ARRAY", key, fmt.Sprintf("indexed together in %s; all %d stores to the two fields are paired (same number of appended elements or values of the same length)", pr.where, nStores))
		}
	}
	r.floor("SIDE-ARRAY", len(pairs), 1, "pairs of slice fields indexed with one index on the read paths")
}
