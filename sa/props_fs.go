package main

import (
	"fmt"
	"sort"
	"strings"
)

// Properties decided (in part) by the file-protocol analysis.
var fsRuleSets = map[string][]string{
	"C04": {"LIST-WRITE", "LIST-HELD", "LIST-VALID", "LIST-CONTENT", "LIST-COMPLETE", "POST-COMMIT-OK", "FAIL-NO-EFFECT", "LOCK-OWN", "UPTODATE-MEANS-EQUAL", "GATE-IDX"},
	"C05": {"ORDER-TABLE-FIRST", "ORDER-DELETE-LAST", "LIST-CONTENT", "LIST-VALID", "GATE-IDX", "UPTODATE-MEANS-EQUAL", "NAME-FRESH", "HASH-TYPE", "LOCK-OWN", "LOCK-EXCL"},
	"C06": {"PRE-COMMIT-INVISIBLE", "ORDER-TABLE-FIRST", "ORDER-DELETE-LAST", "LIST-WRITE", "LIST-COMPLETE", "LIST-CONTENT", "LOCK-OWN", "LOCK-EXCL", "GATE-IDX"},
	"C08": {"LOCK-EXCL", "LOCK-OWN"},
	"C09": {"LIST-VALID", "UPTODATE-MEANS-EQUAL", "STALE-RELOAD", "STALE-NO-RESIDUE", "FAIL-NO-EFFECT", "GATE-IDX"},
	"C10": {"READER-OWN", "MERGED-FRESH", "RELOAD-COMPLETE", "NAME-FRESH", "LOCK-OWN", "LOCK-EXCL"},
	"C16": {"PAIR-LOCK", "PAIR-TMP", "FAIL-NO-EFFECT", "ORDER-DELETE-LAST", "LIST-VALID", "UPTODATE-MEANS-EQUAL"},
}

// instance floors: rule -> minimum number of operations (entry points and
// protocol sequences) in which the rule must have been evaluated.  Counted in
// semantic terms, so moving code into helpers does not change the count.
var fsFloors = map[string]map[string]int{
	"C04": {"LIST-WRITE": 4, "LIST-HELD": 4, "LIST-VALID": 5, "LIST-CONTENT": 4, "LIST-COMPLETE": 4, "POST-COMMIT-OK": 1, "LOCK-OWN": 5, "UPTODATE-MEANS-EQUAL": 5},
	"C05": {"ORDER-TABLE-FIRST": 4, "ORDER-DELETE-LAST": 5, "GATE-IDX": 2, "LIST-VALID": 5, "NAME-FRESH": 4, "HASH-TYPE": 4},
	"C06": {"ORDER-TABLE-FIRST": 4, "ORDER-DELETE-LAST": 5, "LIST-WRITE": 4, "LIST-COMPLETE": 4, "LIST-CONTENT": 4},
	"C08": {"LOCK-EXCL": 5, "LOCK-OWN": 5},
	"C09": {"LIST-VALID": 5, "UPTODATE-MEANS-EQUAL": 5, "STALE-RELOAD": 1, "STALE-NO-RESIDUE": 3, "GATE-IDX": 2},
	"C10": {"READER-OWN": 8, "MERGED-FRESH": 5, "RELOAD-COMPLETE": 5, "NAME-FRESH": 4},
	"C16": {"PAIR-LOCK": 10, "PAIR-TMP": 10, "FAIL-NO-EFFECT": 10, "ORDER-DELETE-LAST": 5},
}

var fsExplain = map[string]string{
	"C04": "Typestate of the commit protocol on every path of every stack operation (path-sensitive abstract simulation of go/ssa with modelled filesystem calls): tables.list is replaced only by renaming onto it a file this operation created, wrote completely and closed, while it holds the O_EXCL lock, after an up-to-date check that really compares every name and that happened in the same lock tenure; the new list is the validated stack plus/minus exactly this operation's tables (range partition for compaction); a committed Add returns nil; a failed one leaves nothing in place. Decides these per-handle rules on all paths, not the global linearizability statement, which follows by the rely/guarantee argument of DESIGN §5.",
	"C05": "Ordering rules on every path: a new table is renamed into place (after its handle is closed and the update-index gate passed) before a list names it; a table is unlinked only when it is not named by the most recent list this handle committed or read (index-disjointness and map-membership facts established on the path), Clean only under the validated lock.",
	"C06": "Crash-prefix safety of each operation's filesystem call sequence: before the list rename no event touches the list or a listed table, the list content is complete and closed before the rename, the list is never written in place, inputs are removed only after the rename.",
	"C08": "Lock typestate: every *.lock creation uses O_EXCL|O_CREATE; every remove/rename of a lock path on every path (deferred closures and loops over collected lock names included) happens while this operation holds a token it created itself; a path on which the exclusive create failed never removes that path.",
	"C09": "Must-pass-through: no path reaches a list rename or a Clean removal without an up-to-date check (that compares lengths and every name) during the current lock tenure; every ErrLockFailure return of Add passes through reload; the update-index gate compares against the index following everything the transaction builds on.",
	"C10": "Reader ownership in reload: a reader that is still in the handle's stack at an exit was not closed on the path to it; the stack stored by reload holds a reader for every name of the one list read; the merged view is rebuilt from the stored stack with deletions suppressed on every successful path.",
	"C16": "Resource pairing at every exit of every operation and of every sequence of the public Addition protocol: no lock token, temp file or unlisted new table remains owned.",
}

var fsNotDecided = map[string][]string{
	"C04": {"the global interleaving statement itself (DESIGN §5 is a paper argument)", "behaviour under I/O faults (advisory run only)", "order of names inside the list (lists are abstracted to sets)"},
	"C05": {"that a table file is complete and valid", "foreign (non-conforming) processes"},
	"C06": {"durability without fsync", "torn renames"},
	"C08": {"atomicity of O_EXCL itself (trusted)", "double release of one lock inside a loop (weak update)"},
	"C09": {"that the retry succeeds (liveness)"},
	"C10": {"the retry deadline (a reload that fails for 2.5 s falls through with the old stack)", "that the snapshot is a committed version (needs C04/C05 of the writers)"},
	"C16": {"directory contents at global quiescence as a whole"},
}

var fsCache *fsResult

type fsResult struct {
	rules *fsRules
	runs  []fsRun
}

func fsAnalyse(p *Program) *fsResult {
	if fsCache == nil {
		rules, runs := runFsproto(p, "")
		fsCache = &fsResult{rules, runs}
	}
	return fsCache
}

func checkFs(prop string) checkFunc {
	return func(p *Program, r *Report) {
		res := fsAnalyse(p)
		want := map[string]bool{}
		for _, ru := range fsRuleSets[prop] {
			want[ru] = true
		}
		count := map[string]int{}
		for k, o := range res.rules.obl {
			ru := res.rules.rule[k]
			if !want[ru] {
				continue
			}
			count[ru]++
			if o.OK {
				r.ok(ru, strings.TrimPrefix(k, ru+" / "), o.Note)
			} else {
				v := res.rules.viol[k]
				r.violate(ru, strings.TrimPrefix(k, ru+" / "), v.Where, v.Message, v.Witness)
			}
		}
		for ru, n := range fsFloors[prop] {
			r.floor(ru, len(res.rules.seen[ru]), n, "operations (entry points / protocol sequences) in which rule "+ru+" was evaluated")
		}
		var eps []string
		paths, states := 0, 0
		fnset := map[string]bool{}
		for _, run := range res.runs {
			eps = append(eps, fmt.Sprintf("%s: %d paths, %d abstract steps, %d loops/%d fixpoint rounds", run.Entry, run.Paths, run.States, run.Loops, run.Rounds))
			paths += run.Paths
			states += run.States
			for _, f := range run.Funcs {
				fnset[f] = true
			}
		}
		var fns []string
		for f := range fnset {
			fns = append(fns, f)
		}
		sort.Strings(fns)
		r.Stats["entry_points"] = eps
		r.Stats["paths"] = paths
		r.Stats["abstract_steps"] = states
		r.Stats["functions_simulated"] = fns
		r.Samples = append(r.Samples, map[string]interface{}{"entry_points_analysed": eps})
		r.Engines = []string{"pathsim", "fsproto"}
		r.Explanation = fsExplain[prop]
		r.NotDecided = fsNotDecided[prop]
		r.Assumptions = []string{
			"fault-free filesystem model (outcome table of DESIGN §3.2); fault outcomes are advisory only",
			"T1-T4 and relies R1-R3 of DESIGN §5 (O_EXCL atomic, rename atomic, listed tables exist, list never removed)",
			"names of distinct tables of one stack are distinct; freshly formatted names do not collide with existing ones",
			"loops are analysed by generic iteration to a fixpoint: iterations are independent except through the collections they build",
			"opaque in-package callees (Writer, Reader, Merged methods) do not write Stack/Addition fields",
		}
		r.Advisory = res.rules.adv
	}
}

func init() {
	for p := range fsRuleSets {
		checks[p] = checkFs(p)
	}
	base04 := checks["C04"]
	checks["C04"] = func(p *Program, r *Report) {
		base04(p, r)
		checkAccessors(p, r)
		// a compaction must not undo a committed deletion or alter a committed record
		copyRules(p, r, func(p *Program, r *Report) { checkCompactionTables(p, r, false, true) }, "COMPACT-RAW", "DT-TOMB-REF", "COMPACT-KEEP", "COMPACT-RANGE", "COMPACT-LIMITS")
		r.Engines = append(r.Engines, "sibling")
	}
	base08 := checks["C08"]
	checks["C08"] = func(p *Program, r *Report) {
		base08(p, r)
		// "a handle that fails to acquire a lock never deletes it" holds for every
		// way the acquisition can fail: second pass with a third outcome of the
		// exclusive create (an error other than EEXIST), lock-ownership rule only
		rules := newFsRules()
		c := newFsClient(p, rules)
		c.lockFaults = true
		var runs []fsRun
		for _, fn := range fsEntryPoints(p) {
			if funcKey(fn) == "(*Stack).Add" {
				continue // Add = NewAddition protocol + AutoCompact, both analysed on their own
			}
			c.runEntry(fn, &runs)
		}
		c.runProtocol(&runs)
		n := 0
		for k, v := range rules.viol {
			n++
			r.violate("LOCK-OWN", strings.TrimPrefix(k, "LOCK-OWN / "), v.Where, v.Message, v.Witness)
		}
		if n == 0 {
			r.ok("LOCK-OWN", "all operations / a create that fails with an error other than EEXIST removes nothing", "no lock path is removed or renamed on a path on which its exclusive create failed for another reason")
		}
		r.Stats["lock_fault_pass.paths"] = len(runs)
	}
	base16 := checks["C16"]
	checks["C16"] = func(p *Program, r *Report) {
		base16(p, r)
		checkEmptyStack(p, r)
		r.Engines = append(r.Engines, "nilcontract")
	}
	base10 := checks["C10"]
	checks["C10"] = func(p *Program, r *Report) {
		base10(p, r)
		// open files are read positionally through the descriptor opened at
		// construction, so unlinking a table does not disturb a reader (T3)
		r2 := newReport(r.Property, r.Tier, r.Seed)
		checkEffects(p, r2)
		for k, o := range r2.Obl {
			if o.Rule != "E4" {
				continue
			}
			if v, bad := r2.Viol[k]; bad {
				r.violate("HANDLE-KEEP", strings.TrimPrefix(k, "E4 / "), v.Where, v.Message, nil)
			} else {
				r.ok("HANDLE-KEEP", strings.TrimPrefix(k, "E4 / "), o.Note)
			}
		}
		r.Engines = append(r.Engines, "effects")
	}
	checks["C07"] = func(p *Program, r *Report) {
		checkFsSubset(p, r, []string{"COMPACT-PUBLISHES", "LIST-CONTENT", "ORDER-DELETE-LAST", "CONFIG-SAME", "LIST-VALID", "UPTODATE-MEANS-EQUAL"}, map[string]int{"COMPACT-PUBLISHES": 2, "LIST-CONTENT": 4, "CONFIG-SAME": 2, "LIST-VALID": 5})
		checkCompactionTables(p, r, false, true)
		// what a reader sees after the compaction goes through the stack's view again:
		// that view (also of a single table) hides the tombstones the compaction kept
		copyRules(p, r, checkMergedView, "SEEK-MERGED", "DT-SUPPRESS")
		r.Engines = []string{"pathsim", "dtable", "fsproto"}
		r.Explanation = "Decision table of the compaction rewrite loop extracted by path-sensitive simulation: a ref (or log) record obtained from the raw merged view of exactly stack[first..last] is either handed unmodified to AddRef/AddLog or dropped, and DROP implies (first = 0 and IsDeletion) [or expiry, see C13]; output limits are (min of first, max of last); the compaction's merged view never suppresses deletions; the committed list keeps exactly the tables outside [first,last] plus the new table; a finished merge is published. These are necessary conditions of view preservation, not the equality of views itself."
		r.NotDecided = []string{"equality of the reader's view before/after for given data (needs the arithmetic of C01-C03)", "log deletions surviving the writer's message normalisation (decided under C01 deletion preservation)"}
		r.Assumptions = []string{"IsDeletion is a pure function of the record (checked by the effects engine when built)", "iterator Next fills the record passed to it and nothing else"}
	}
	checks["C13"] = func(p *Program, r *Report) {
		// the expiry is applied to the stack that was validated under the lock: the range
		// and the view do not change between the up-to-date check and the rewrite
		checkFsSubset(p, r, []string{"COMPACT-PUBLISHES", "LIST-VALID", "LIST-CONTENT", "CONFIG-SAME", "EXPIRY-APPLIED"}, map[string]int{"COMPACT-PUBLISHES": 2, "CONFIG-SAME": 2, "EXPIRY-APPLIED": 1})
		checkCompactionTables(p, r, true, false)
		r.Engines = []string{"pathsim", "dtable", "fsproto"}
		r.Explanation = "Exact decision table of the expiry filter: over the atoms cfg=nil, cfg.Time?0, rec.Time?cfg.Time, cfg.Max?0, rec.idx?cfg.Max, cfg.Min?0, rec.idx?cfg.Min (all valuations consistent with the order theory are enumerated), KEEP implies not expired and DROP implies expired or a bottom tombstone, with E = cfg!=nil and ((Time>0 and rec.Time<Time) or (Max!=0 and idx>Max) or (Min!=0 and idx<Min)); the record written is the record read; refs are dropped only as bottom tombstones, never by expiry; a compaction that merged reports success only after publishing the new list."
		r.NotDecided = []string{"byte-for-byte preservation of kept entries (C01)"}
		r.Assumptions = []string{"iterator Next fills the record passed to it and nothing else"}
	}
}

// checkFsSubset copies the obligations of some fsproto rules into a report.
func checkFsSubset(p *Program, r *Report, rules []string, floors map[string]int) {
	res := fsAnalyse(p)
	want := map[string]bool{}
	for _, ru := range rules {
		want[ru] = true
	}
	for k, o := range res.rules.obl {
		ru := res.rules.rule[k]
		if !want[ru] {
			continue
		}
		if o.OK {
			r.ok(ru, strings.TrimPrefix(k, ru+" / "), o.Note)
		} else {
			v := res.rules.viol[k]
			r.violate(ru, strings.TrimPrefix(k, ru+" / "), v.Where, v.Message, v.Witness)
		}
	}
	for ru, n := range floors {
		r.floor(ru, len(res.rules.seen[ru]), n, "operations in which rule "+ru+" was evaluated")
	}
}
