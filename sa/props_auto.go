package main

import (
	"fmt"
	"go/token"
	"go/types"
	"os"
	"strings"

	"golang.org/x/tools/go/ssa"
)

// C17 (narrow): structural necessary conditions of "auto-compaction merges a
// contiguous range of at least two tables and makes progress".  The size
// classes, the 2*log2(N) depth and the N*log2(N) cost quantify over numeric
// size vectors and are NOT decided.  What is decided, on every path:
//
//	SEG-NOT-SINGLE    the chooser adopts a candidate segment only on a path that
//	                  established that it does not consist of exactly one table;
//	SEG-NIL-IFF-EMPTY it reports "nothing to do" (nil) exactly when the adopted
//	                  segment is empty, i.e. no candidate was adopted;
//	SEG-EXTEND-DOWN   after the choice the segment is only ever grown by moving its
//	                  start down by one (its end is not touched): it stays one
//	                  contiguous range that contains the adopted one;
//	AUTO-RANGE        AutoCompact compacts exactly [seg.start, seg.end-1] of a
//	                  non-nil choice, without expiry, and does nothing otherwise.
func checkAutoCompact(p *Program, r *Report) {
	segT := p.namedType("segment")
	// the chooser: in-package function returning *segment
	var chooser *ssa.Function
	for _, f := range p.Funcs {
		if f.Parent() != nil || f.Signature.Results().Len() != 1 {
			continue
		}
		if pt, ok := f.Signature.Results().At(0).Type().(*types.Pointer); ok && types.Identical(pt.Elem(), segT) {
			if chooser != nil {
				fatalf("unresolved anchor: two functions return *segment")
			}
			chooser = f
		}
	}
	if chooser == nil {
		fatalf("unresolved anchor: compaction chooser (function returning *segment)")
	}
	fk := funcKey(chooser)
	type storeEv struct {
		field    string
		val, old *Term
		loop     string
	}
	cfg := &simCfg{
		Pure:     map[string]bool{"log2": true},
		Opaque:   map[string]bool{"sizesToSegments": true},
		BackVals: true,
		OnStoreHook: func(c *simClient, x *Exec, st *State, fr *Frame, pos token.Pos, addr, val, old *Term) {
			root := rootOf(addr)
			if root.Op != "alloc" || root.Typ == nil || !types.Identical(root.Typ, segT) {
				return
			}
			f := "*"
			if addr.Op == "field" {
				f = strings.TrimPrefix(addr.Aux, "segment.")
			}
			g := c.g(st)
			lp := ""
			if len(x.marks) > 0 {
				lp = x.curMark().key
			}
			g.events = append(g.events, mk("ev", "segstore:"+f, nil, val, oldOr(old), mk("site", lp, nil), root))
		},
	}
	c, _ := runSim(p, chooser, cfg, nil)
	one, zero := tConst("1", nil), tConst("0", nil)
	nAdopt, nRet, nExt := 0, 0, 0
	extBase, extStep := map[string]bool{}, map[string]bool{}
	badSingle, badNil, badExt := "", "", ""
	var wSingle, wNil, wExt []string
	// loops in program order: the first is the selection loop, the others extend
	var loopOrder []string
	seenLoop := map[string]bool{}
	for _, s := range c.Samples {
		if s.Loop != "" && !seenLoop[s.Loop] {
			seenLoop[s.Loop] = true
			loopOrder = append(loopOrder, s.Loop)
		}
	}
	// the segment that is handed back: stores to other segment-typed locals
	// (the loop variable) are not adoptions
	var chosen *Term
	for _, s := range c.Samples {
		if s.Kind == "ret" && len(s.Vals) == 1 && s.Vals[0].Op == "alloc" {
			chosen = s.Vals[0]
		}
	}
	if chosen == nil {
		fatalf("unresolved anchor: %s never returns the address of a local segment", fk)
	}
	selLoop := ""
	for _, s := range c.Samples {
		if s.Kind != "back" {
			continue
		}
		// the selection loop ranges over the opaque candidate list
		for _, k := range sortedFactKeys(s.St) {
			if strings.Contains(k, "call[sizesToSegments]") && strings.Contains(k, "loopvar") && selLoop == "" {
				selLoop = s.Loop
			}
		}
	}
	for _, s := range c.Samples {
		cm := termByKey(s.Loop)
		if os.Getenv("RSA_DEBUG") == "21" && (s.Kind == "back" || s.Kind == "ret") {
			fmt.Fprintf(os.Stderr, "AUTO %s loop=%s sel=%v vals=%v\n", s.Kind, s.Loop, s.Loop == selLoop, s.Vals)
			for _, e := range s.Events {
				fmt.Fprintf(os.Stderr, "   ev %s\n", e)
			}
			for _, k := range sortedFactKeys(s.St) {
				fmt.Fprintf(os.Stderr, "   fact %s = %v\n", s.St.fterm[k], s.St.facts[k])
			}
		}
		switch {
		case s.Kind == "back" && s.Loop == selLoop && cm != nil:
			adopted := false
			for _, e := range s.Events {
				if e.Op == "ev" && strings.HasPrefix(e.Aux, "segstore:") && e.Args[2].Aux == s.Loop && e.Args[3] == chosen {
					adopted = true
				}
				// the best candidate so far may be kept in another local (a helper's
				// own variable) and handed back by value: a whole-segment store in the
				// selection loop whose value is not the candidate element itself (that
				// is the copy into the loop variable) is an adoption too
				if e.Op == "ev" && e.Aux == "segstore:*" && e.Args[2].Aux == s.Loop && e.Args[3] != chosen {
					v := e.Args[0]
					if v.Op != "elem" && v.Op != "draw" && v.Op != "inst" && v.Op != "anyelem" {
						adopted = true
					}
				}
			}
			if !adopted {
				continue
			}
			nAdopt++
			// a fact "size(candidate) == 1" = false on this path
			notSingle := false
			for _, k := range sortedFactKeys(s.St) {
				t := s.St.fterm[k]
				if t.Op == "eq" && !s.St.facts[k] && (t.Args[0] == one || t.Args[1] == one) && t.contains(cm) {
					notSingle = true
				}
			}
			if !notSingle {
				badSingle = "a candidate segment is adopted on a path that did not exclude a segment of exactly one table"
				wSingle = witnessOf(p, s.St.trace)
			}
		case s.Kind == "back" && s.Loop != selLoop && s.Loop != "":
			// extension steps
			for _, e := range s.Events {
				// (the segment being extended may be a by-value copy in a helper)
				if e.Op != "ev" || !strings.HasPrefix(e.Aux, "segstore:") || e.Args[2].Aux != s.Loop {
					continue
				}
				nExt++
				f := strings.TrimPrefix(e.Aux, "segstore:")
				switch f {
				case "start":
					want := addConst(e.Args[1], -1, nil)
					if want == nil {
						want = mk("bin", "-", nil, e.Args[1], one)
					}
					if e.Args[0].key == want.key {
						extBase[s.Loop] = true
						break
					}
					// start := c for a loop counter c that is kept one below the start:
					// base case above (first round), step here - the counter is what is
					// stored and it is handed on decremented by one
					step := false
					for nm, hv := range s.HeadVals {
						if hv == e.Args[0] && s.NextVals[nm] != nil {
							if d := addConst(hv, -1, nil); (d != nil && d.key == s.NextVals[nm].key) || mk("bin", "-", nil, hv, one).key == s.NextVals[nm].key {
								step = true
							}
						}
					}
					if step {
						extStep[s.Loop] = true
						// base case on the SSA form: the counter enters the loop as start - 1
						for nm, hv := range s.HeadVals {
							if hv != e.Args[0] || s.Fr == nil {
								continue
							}
							for _, b := range s.Fr.fn.Blocks {
								for _, ins := range b.Instrs {
									ph, ok := ins.(*ssa.Phi)
									if !ok || ph.Name() != nm {
										continue
									}
									for i, ev := range ph.Edges {
										if b.Preds[i].Dominates(b) && b.Dominates(b.Preds[i]) {
											continue
										}
										if bo, ok := ev.(*ssa.BinOp); ok && bo.Op == token.SUB {
											if c, ok := bo.Y.(*ssa.Const); ok && c.Value != nil && c.Value.ExactString() == "1" && isStartField(bo.X, segT) {
												extBase[s.Loop] = true
											}
										}
									}
								}
							}
						}
					} else {
						badExt = "the start of the chosen segment is set to " + e.Args[0].String() + ", not to the position just below it"
						wExt = witnessOf(p, s.St.trace)
					}
				case "end", "*":
					badExt = "the extension loop rewrites the segment's " + f + ": the range may no longer contain the adopted segment or stay contiguous"
					wExt = witnessOf(p, s.St.trace)
				}
			}
		case s.Kind == "ret" && !s.Panic && len(s.Vals) == 1:
			nRet++
			isNil := s.Vals[0].isNilConst()
			empty := -1
			for _, k := range sortedFactKeys(s.St) {
				t := s.St.fterm[k]
				if t.Op != "eq" || (t.Args[0] != zero && t.Args[1] != zero) {
					continue
				}
				o := t.Args[0]
				if o == zero {
					o = t.Args[1]
				}
				if o.Op == "bin" && o.Aux == "-" && strings.Contains(o.Args[0].key, "fieldof[end]") && strings.Contains(o.Args[1].key, "fieldof[start]") {
					if s.St.facts[k] {
						empty = 1
					} else {
						empty = 0
					}
				}
			}
			if empty < 0 {
				// nothing was adopted on this path: the segment is still the zero range
				ce, okE := s.St.mem[mk("field", "segment.end", nil, chosen).key]
				cs, okS := s.St.mem[mk("field", "segment.start", nil, chosen).key]
				if okE && okS && ce.val == zero && cs.val == zero {
					empty = 1
				}
			}
			if (isNil && empty != 1) || (!isNil && empty != 0) {
				badNil = fmt.Sprintf("the chooser returns %s on a path on which the adopted segment's emptiness is %d (1 empty, 0 not empty, -1 not tested)", s.Vals[0], empty)
				wNil = witnessOf(p, s.St.trace)
			}
		}
	}
	report := func(rule, key, bad, okNote string, w []string) {
		if bad != "" {
			r.violate(rule, fk+" / "+key, p.pos(chooser.Pos()), bad, w)
		} else {
			r.ok(rule, fk+" / "+key, okNote)
		}
	}
	// an extension loop accepted by the counter argument needs its base case too
	for lp := range extStep {
		if !extBase[lp] && badExt == "" {
			badExt = "the start of the chosen segment follows a loop counter that is not shown to begin just below the start"
		}
	}
	report("SEG-NOT-SINGLE", "a one-table segment is never adopted", badSingle, fmt.Sprintf("%d adopting iterations, each after size != 1", nAdopt), wSingle)
	report("SEG-NIL-IFF-EMPTY", "nothing to do exactly when nothing was adopted", badNil, fmt.Sprintf("%d returns: nil iff size = 0", nRet), wNil)
	report("SEG-EXTEND-DOWN", "the chosen segment only grows downward by one table at a time", badExt, fmt.Sprintf("%d extension stores: start := start-1 only", nExt), wExt)
	r.floor("SEG-NOT-SINGLE", nAdopt, 1, "adopting iterations of the chooser")
	r.floor("SEG-NIL-IFF-EMPTY", nRet, 2, "returns of the chooser")
	r.floor("SEG-EXTEND-DOWN", nExt, 1, "extension steps of the chooser")

	// AUTO-RANGE
	var auto *ssa.Function
	for _, f := range p.Funcs {
		if f.Parent() == nil && directCallees(f)[fk] {
			if auto != nil {
				fatalf("unresolved anchor: two callers of %s", fk)
			}
			auto = f
		}
	}
	if auto == nil {
		fatalf("unresolved anchor: caller of %s", fk)
	}
	ak := funcKey(auto)
	// the compaction entry: the callee of auto that takes two ints and an expiry pointer
	comp := ""
	for k := range directCallees(auto) {
		if g := p.Func(k); g != nil && g.Signature.Params().Len() == 3 {
			comp = k
		}
	}
	if comp == "" {
		fatalf("unresolved anchor: range compaction called by %s", ak)
	}
	cfg2 := &simCfg{Event: map[string]bool{comp: true}, Keep: map[string]bool{comp: true}, Opaque: map[string]bool{fk: true}, NoInlineDefault: true}
	c2, _ := runSim(p, auto, cfg2, nil)
	nA := 0
	badA := ""
	var wA []string
	for _, s := range c2.Samples {
		if s.Kind != "ret" || s.Panic {
			continue
		}
		nA++
		var seg *Term
		for _, k := range sortedFactKeys(s.St) {
			t := s.St.fterm[k]
			if t.Op == "eq" && (t.Args[0].isNilConst() || t.Args[1].isNilConst()) {
				o := t.Args[0]
				if o.isNilConst() {
					o = t.Args[1]
				}
				if o.Op == "call" && o.Aux == fk {
					seg = o
				}
			}
		}
		ev := hasEvent(s.Events, comp)
		switch {
		case ev == nil:
			if seg == nil || s.St.truth(tEq(seg, tNil)) != 1 {
				badA = "a path does not compact although the chooser did not report nil"
				wA = witnessOf(p, s.St.trace)
			}
		default:
			if seg == nil || s.St.truth(tEq(seg, tNil)) != 0 {
				badA = "the compaction runs on a path that did not establish a non-nil choice"
				wA = witnessOf(p, s.St.trace)
				break
			}
			start := mk("init", "", nil, mk("field", "segment.start", nil, seg))
			end := mk("init", "", nil, mk("field", "segment.end", nil, seg))
			wantLast := mk("bin", "-", nil, end, tConst("1", nil))
			a1, a2, a3 := ev.Args[1], ev.Args[2], ev.Args[3]
			if a1.key != start.key || a2.key != wantLast.key || !a3.isNilConst() {
				badA = fmt.Sprintf("the compaction is called with (%s, %s, %s) instead of (seg.start, seg.end-1, nil)", a1, a2, a3)
				wA = witnessOf(p, s.St.trace)
			}
		}
	}
	if badA != "" {
		r.violate("AUTO-RANGE", ak+" / compacts exactly the chosen range, without expiry", p.pos(auto.Pos()), badA, wA)
	} else {
		r.ok("AUTO-RANGE", ak+" / compacts exactly the chosen range, without expiry", fmt.Sprintf("%d exits: compactRange(seg.start, seg.end-1, nil) iff seg != nil", nA))
	}
	r.floor("AUTO-RANGE", nA, 2, "exits of "+ak)
}

func oldOr(t *Term) *Term {
	if t == nil {
		return tNil
	}
	return t
}

func init() {
	checks["C17"] = func(p *Program, r *Report) {
		checkAutoCompact(p, r)
		// the range that was chosen is applied to the stack it was chosen for: the
		// compaction goes on only if the handle's stack is still the listed one
		// and a compaction that merged reports success only after installing its result
		// (also an empty one): otherwise the same tables stay due for ever
		checkFsSubset(p, r, []string{"LIST-VALID", "LIST-CONTENT", "COMPACT-PUBLISHES"}, map[string]int{"LIST-VALID": 5, "COMPACT-PUBLISHES": 2})
		r.Engines = []string{"pathsim", "dtable"}
		r.Explanation = "Narrow structural clauses of the auto-compaction property, decided on every path of the chooser and of AutoCompact by abstract simulation: a candidate segment is adopted only after its size was found different from one table; nil is returned exactly when the adopted segment is empty; after the choice the segment only grows by moving its start down by one position at a time; AutoCompact compacts exactly [seg.start, seg.end-1] of a non-nil choice with a nil expiry policy and does nothing otherwise. Together with C07's range rules this gives: what auto-compaction merges is one contiguous range that is never a single table."
		r.NotDecided = []string{"the power-of-two size classes (which segment is adopted among several)", "that 'nothing to do' coincides with 'no two adjacent tables in the same class'", "the 2*log2(N) depth bound and the N*log2(N) rewrite cost for uniform workloads", "that segment sizes are non-negative (end >= start for the candidates)"}
		r.Assumptions = []string{"the candidate list is opaque: its segments are arbitrary", "log2 is pure"}
	}
}

// isStartField: v reads the segment's start field (the first int field of the type).
func isStartField(v ssa.Value, segT *types.Named) bool {
	st, ok := segT.Underlying().(*types.Struct)
	if !ok {
		return false
	}
	startIdx := -1
	for i := 0; i < st.NumFields(); i++ {
		if fname(st.Field(i)) == "start" {
			startIdx = i
		}
	}
	switch x := v.(type) {
	case *ssa.UnOp:
		if fa, ok := x.X.(*ssa.FieldAddr); ok {
			return fa.Field == startIdx
		}
	case *ssa.Field:
		return x.Field == startIdx
	}
	return false
}
