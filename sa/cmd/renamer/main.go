// renamer: test aid (not a check). Writes a copy of the package in which every
// unexported function, method and (optionally) struct field of the root
// package has a different name - a behaviour-preserving change by construction.
// Used to find rules that are anchored in a name instead of a role.
//
//	renamer --repo DIR [--funcs] [--fields] [--only REGEX]   (rewrites DIR in place)
package main

import (
	"flag"
	"fmt"
	"go/ast"
	"go/token"
	"go/types"
	"os"
	"regexp"
	"sort"
	"strings"

	"golang.org/x/tools/go/packages"
)

func main() {
	repo := flag.String("repo", "", "scratch copy to rewrite in place")
	funcs := flag.Bool("funcs", false, "rename unexported functions and methods")
	fields := flag.Bool("fields", false, "rename unexported struct fields")
	typs := flag.Bool("types", false, "rename unexported named types")
	only := flag.String("only", "", "rename only names matching this regexp")
	flag.Parse()
	var re *regexp.Regexp
	if *only != "" {
		re = regexp.MustCompile(*only)
	}
	cfg := &packages.Config{Mode: packages.NeedName | packages.NeedFiles | packages.NeedCompiledGoFiles | packages.NeedImports | packages.NeedTypes | packages.NeedSyntax | packages.NeedTypesInfo | packages.NeedDeps,
		Dir: *repo, Tests: true}
	pkgs, err := packages.Load(cfg, ".")
	if err != nil || len(pkgs) == 0 {
		fmt.Fprintln(os.Stderr, "load:", err)
		os.Exit(2)
	}
	type edit struct {
		off int
		old string
		new string
	}
	edits := map[string][]edit{}
	seenPos := map[token.Pos]bool{}
	n := 0
	for _, pkg := range pkgs {
		if len(pkg.Errors) > 0 {
			fmt.Fprintln(os.Stderr, "errors:", pkg.Errors)
			os.Exit(2)
		}
		want := func(o types.Object) bool {
			if o == nil || o.Pkg() == nil || !strings.HasSuffix(o.Pkg().Path(), "reftable") && !strings.HasSuffix(o.Pkg().Path(), "reftable_test") {
				return false
			}
			name := o.Name()
			if name == "_" || name == "init" || name == "main" || ast.IsExported(name) || strings.HasPrefix(name, "Test") {
				return false
			}
			if re != nil && !re.MatchString(name) {
				return false
			}
			// objects declared in test files keep their names
			if strings.HasSuffix(pkg.Fset.Position(o.Pos()).Filename, "_test.go") {
				return false
			}
			switch v := o.(type) {
			case *types.Func:
				return *funcs
			case *types.Var:
				return *fields && v.IsField() && !v.Embedded()
			case *types.TypeName:
				_, named := v.Type().(*types.Named)
				return *typs && named && !v.IsAlias()
			}
			return false
		}
		visit := func(id *ast.Ident, o types.Object) {
			if !want(o) || seenPos[id.Pos()] {
				return
			}
			seenPos[id.Pos()] = true
			ps := pkg.Fset.Position(id.Pos())
			edits[ps.Filename] = append(edits[ps.Filename], edit{ps.Offset, id.Name, id.Name + "Rn"})
			n++
		}
		for id, o := range pkg.TypesInfo.Defs {
			visit(id, o)
		}
		for id, o := range pkg.TypesInfo.Uses {
			visit(id, o)
		}
		// embedded fields of a renamed type are referred to by the type's name
		if *typs {
			for id, o := range pkg.TypesInfo.Uses {
				if v, ok := o.(*types.Var); ok && v.Embedded() {
					if nt, ok := derefNamed(v.Type()); ok && want(nt.Obj()) {
						visit2 := func() {
							if seenPos[id.Pos()] {
								return
							}
							seenPos[id.Pos()] = true
							ps := pkg.Fset.Position(id.Pos())
							edits[ps.Filename] = append(edits[ps.Filename], edit{ps.Offset, id.Name, id.Name + "Rn"})
						}
						visit2()
					}
				}
			}
		}
	}
	var files []string
	for f := range edits {
		files = append(files, f)
	}
	sort.Strings(files)
	for _, f := range files {
		es := edits[f]
		sort.Slice(es, func(i, j int) bool { return es[i].off > es[j].off })
		src, err := os.ReadFile(f)
		if err != nil {
			fmt.Fprintln(os.Stderr, err)
			os.Exit(2)
		}
		for _, e := range es {
			if string(src[e.off:e.off+len(e.old)]) != e.old {
				fmt.Fprintf(os.Stderr, "mismatch in %s at %d: %q\n", f, e.off, src[e.off:e.off+len(e.old)])
				os.Exit(2)
			}
			src = append(src[:e.off:e.off], append([]byte(e.new), src[e.off+len(e.old):]...)...)
		}
		if err := os.WriteFile(f, src, 0644); err != nil {
			fmt.Fprintln(os.Stderr, err)
			os.Exit(2)
		}
	}
	fmt.Printf("renamed %d identifiers in %d files\n", n, len(files))
}

func derefNamed(t types.Type) (*types.Named, bool) {
	if p, ok := t.(*types.Pointer); ok {
		t = p.Elem()
	}
	n, ok := t.(*types.Named)
	return n, ok
}
