package main

import (
	"fmt"
	"go/constant"
	"go/token"
	"go/types"
	"os"
	"sort"
	"strconv"
	"strings"

	"golang.org/x/tools/go/ssa"
)

// fsproto: the file-protocol instance of pathsim (DESIGN §3.2).  It models
// the filesystem calls of the stack layer, keeps the typestate in fsGhost and
// checks the rules LOCK-*, LIST-*, ORDER-*, PAIR-*, READER-OWN, MERGED-FRESH …
// at every event and exit of every path of every stack operation.

type fsClient struct {
	lockFaults bool // second pass of C08: O_EXCL creates may fail with errors other than EEXIST
	p          *Program
	rep        *fsRules
	// resolved anchors
	stackT, additionT, readerT, mergedT, writerT *types.Named
	listField, dirField                          string
	oExcl, oCreate, oWrite                       int64
	entry                                        string             // entry point being analysed
	summaries                                    map[string][]*Term // entry point -> abstract error results of its exits
	faults                                       bool               // advisory run with I/O fault outcomes
	events                                       int
}

// fsRules collects obligations per rule; shared by the C04..C16 reports.
type fsRules struct {
	viol map[string]*Violation
	obl  map[string]*Obligation
	rule map[string]string // obligation key -> rule
	adv  []string
	seen map[string]map[string]bool // rule -> entry points in which it was evaluated
}

func (r *fsRules) mark(rule, entry string) {
	if r.seen == nil {
		r.seen = map[string]map[string]bool{}
	}
	if r.seen[rule] == nil {
		r.seen[rule] = map[string]bool{}
	}
	r.seen[rule][entry] = true
}

func newFsRules() *fsRules {
	return &fsRules{viol: map[string]*Violation{}, obl: map[string]*Obligation{}, rule: map[string]string{}}
}

func (c *fsClient) violate(st *State, rule, key string, pos token.Pos, msg string) {
	if c.lockFaults {
		// only the lock-ownership rules are evaluated on acquisition-fault paths,
		// and only on paths on which an acquisition actually failed that way
		if rule != "LOCK-OWN" || !c.g(st).isSet("acqFault") {
			return
		}
		key += " (after an acquisition that failed with an error other than EEXIST)"
	}
	k := rule + " / " + key
	if c.faults {
		c.rep.adv = append(c.rep.adv, "advisory (I/O fault model): "+k+": "+msg)
		return
	}
	c.rep.mark(rule, c.entry)
	w := witnessOf(c.p, st.trace)
	if old, ok := c.rep.viol[k]; ok {
		if len(w) < len(old.Witness) {
			old.Witness, old.Where, old.Message = w, c.p.pos(pos), msg
		}
	} else {
		c.rep.viol[k] = &Violation{Rule: rule, Key: k, Where: c.p.pos(pos), Message: msg, Witness: w}
	}
	c.rep.obl[k] = &Obligation{Rule: rule, Key: k, OK: false, Note: msg}
	c.rep.rule[k] = rule
}

func (c *fsClient) okay(rule, key, note string) {
	if c.faults || c.lockFaults {
		return
	}
	c.rep.mark(rule, c.entry)
	k := rule + " / " + key
	if _, bad := c.rep.viol[k]; bad {
		return
	}
	if _, seen := c.rep.obl[k]; !seen {
		c.rep.obl[k] = &Obligation{Rule: rule, Key: k, OK: true, Note: note}
		c.rep.rule[k] = rule
	}
}

func newFsClient(p *Program, rep *fsRules) *fsClient {
	c := &fsClient{p: p, rep: rep}
	c.stackT = p.namedType("Stack")
	c.additionT = p.namedType("Addition")
	c.readerT = p.namedType("Reader")
	c.mergedT = p.namedType("Merged")
	c.writerT = p.namedType("Writer")
	c.resolveFields()
	findFreshNameFuncs(p)
	osPkg := p.Main.Imports["os"]
	if osPkg == nil {
		fatalf("unresolved anchor: package os not imported by %s", modulePath)
	}
	get := func(name string) int64 {
		o, ok := osPkg.Types.Scope().Lookup(name).(*types.Const)
		if !ok {
			fatalf("unresolved anchor: os.%s", name)
		}
		v, _ := constant.Int64Val(o.Val())
		return v
	}
	c.oExcl, c.oCreate, c.oWrite = get("O_EXCL"), get("O_CREATE"), get("O_WRONLY")|get("O_RDWR")
	return c
}

// resolveFields finds the Stack fields holding the list path and the
// directory semantically: the list path is the string field whose value
// flows into ReadFile; the directory is the one passed to TempFile / Join.
func (c *fsClient) resolveFields() {
	stt := c.stackT.Underlying().(*types.Struct)
	var strFields []string
	for i := 0; i < stt.NumFields(); i++ {
		if b, ok := stt.Field(i).Type().Underlying().(*types.Basic); ok && b.Kind() == types.String {
			strFields = append(strFields, fname(stt.Field(i)))
		}
	}
	readArg := map[string]bool{}
	for _, f := range c.p.Funcs {
		for _, b := range f.Blocks {
			for _, ins := range b.Instrs {
				call, ok := ins.(*ssa.Call)
				if !ok {
					continue
				}
				cal := call.Common().StaticCallee()
				if cal == nil {
					continue
				}
				k := funcKey(cal)
				if k != "io/ioutil.ReadFile" && k != "os.ReadFile" {
					continue
				}
				if u, ok := call.Common().Args[0].(*ssa.UnOp); ok {
					if fa, ok := u.X.(*ssa.FieldAddr); ok {
						if pt, ok := fa.X.Type().Underlying().(*types.Pointer); ok && types.Identical(pt.Elem(), c.stackT) {
							readArg[fname(stt.Field(fa.Field))] = true
						}
					}
				}
			}
		}
	}
	for _, f := range strFields {
		if readArg[f] {
			c.listField = "Stack." + f
		}
	}
	// the directory: the string field that is the first argument of filepath.Join
	joinArg := map[string]int{}
	for _, f := range c.p.Funcs {
		for _, b := range f.Blocks {
			for _, ins := range b.Instrs {
				call, ok := ins.(*ssa.Call)
				if !ok {
					continue
				}
				cal := call.Common().StaticCallee()
				if cal == nil || funcKey(cal) != "path/filepath.Join" || len(call.Common().Args) != 1 {
					continue
				}
				// variadic: the argument slice's element 0
				sl, ok := call.Common().Args[0].(*ssa.Slice)
				if !ok {
					continue
				}
				al, ok := sl.X.(*ssa.Alloc)
				if !ok {
					continue
				}
				for _, ref := range *al.Referrers() {
					ia, ok := ref.(*ssa.IndexAddr)
					if !ok {
						continue
					}
					if c0, ok := ia.Index.(*ssa.Const); !ok || c0.Int64() != 0 {
						continue
					}
					for _, r2 := range *ia.Referrers() {
						sto, ok := r2.(*ssa.Store)
						if !ok {
							continue
						}
						if u, ok := sto.Val.(*ssa.UnOp); ok {
							if fa, ok := u.X.(*ssa.FieldAddr); ok {
								if pt, ok := fa.X.Type().Underlying().(*types.Pointer); ok && types.Identical(pt.Elem(), c.stackT) {
									joinArg[fname(stt.Field(fa.Field))]++
								}
							}
						}
					}
				}
			}
		}
	}
	nDir := 0
	for _, f := range strFields {
		if "Stack."+f != c.listField && (joinArg[f] > 0 || len(strFields) == 2) {
			c.dirField = "Stack." + f
			nDir++
		}
	}
	if c.listField == "" || c.dirField == "" || nDir != 1 {
		fatalf("unresolved anchor: list-path / directory fields of Stack (string fields %v, read through ReadFile: %v)", strFields, readArg)
	}
}

func (c *fsClient) g(st *State) *fsGhost { return st.ghost.(*fsGhost) }

// ---------------------------------------------------------------------------
// path kinds

const (
	kList     = "LIST"
	kListLock = "LISTLOCK"
	kSubLock  = "SUBLOCK"
	kOtherLck = "OTHERLOCK"
	kTable    = "TABLE"    // dir/<name of a reader or of a list/dir entry>
	kNewTable = "NEWTABLE" // dir/<fresh name>.ref
	kTmp      = "TMP"
	kOther    = "OTHER"
)

func isSuffixConcat(t *Term, suffix string) (*Term, bool) {
	if t.Op == "bin" && t.Aux == "+" {
		if s, ok := constString(t.Args[1]); ok && s == suffix {
			return t.Args[0], true
		}
	}
	return nil, false
}

func (c *fsClient) isListPath(st *State, t *Term) bool {
	if t.Op == "init" && t.Args[0].Op == "field" && t.Args[0].Aux == c.listField {
		return true
	}
	for _, cl := range st.mem {
		if cl.addr.Op == "field" && cl.addr.Aux == c.listField && cl.val == t {
			return true
		}
	}
	return false
}

func (c *fsClient) isDir(st *State, t *Term) bool {
	if t.Op == "init" && t.Args[0].Op == "field" && t.Args[0].Aux == c.dirField {
		return true
	}
	for _, cl := range st.mem {
		if cl.addr.Op == "field" && cl.addr.Aux == c.dirField && cl.val == t {
			return true
		}
	}
	return false
}

// joinParts splits join(dir, name).
func (c *fsClient) joinParts(st *State, t *Term) (name *Term, ok bool) {
	if t.Op == "pathjoin" && len(t.Args) == 2 && c.isDir(st, t.Args[0]) {
		return t.Args[1], true
	}
	return nil, false
}

func isFreshName(t *Term) bool {
	// formatName(...) result, possibly with the ".ref" suffix
	if b, ok := isSuffixConcat(t, ".ref"); ok {
		t = b
	}
	return t.Op == "call" && freshNameFuncs[t.Aux]
}

// freshNameFuncs: the in-package functions that format a table name around a
// number drawn from math/rand inside the same call (found structurally: a
// function with a single string result that calls fmt.Sprintf and boxes the
// result of a math/rand call made in its own body).  Only such names are
// taken to differ from every existing name.
var freshNameFuncs = map[string]bool{}

func findFreshNameFuncs(p *Program) {
	freshNameFuncs = map[string]bool{}
	for _, f := range p.Funcs {
		res := f.Signature.Results()
		if res.Len() != 1 || types.TypeString(res.At(0).Type(), nil) != "string" {
			continue
		}
		sprintf, boxedRand := false, false
		for _, b := range f.Blocks {
			for _, ins := range b.Instrs {
				if ci, ok := ins.(ssa.CallInstruction); ok {
					if cal := ci.Common().StaticCallee(); cal != nil && cal.Pkg != nil {
						if cal.Pkg.Pkg.Path() == "fmt" && cal.Name() == "Sprintf" {
							sprintf = true
						}
					}
				}
				if mi, ok := ins.(*ssa.MakeInterface); ok {
					if cv, ok := mi.X.(*ssa.Call); ok {
						if cal := cv.Common().StaticCallee(); cal != nil && cal.Pkg != nil && cal.Pkg.Pkg.Path() == "math/rand" {
							boxedRand = true
						}
					}
				}
			}
		}
		if sprintf && boxedRand {
			freshNameFuncs[funcKey(f)] = true
		}
	}
}

// undraw replaces per-iteration instances draw(m, i) by their summary member m.
func undraw(t *Term) *Term {
	if t == nil || !t.containsOp("draw") {
		return t
	}
	if t.Op == "draw" {
		return undraw(t.Args[0])
	}
	na := make([]*Term, len(t.Args))
	for i, a := range t.Args {
		na[i] = undraw(a)
	}
	return rebuild(t, na)
}

func (c *fsClient) kind(st *State, t *Term) string {
	g := c.g(st)
	t = undraw(t)
	if c.isListPath(st, t) {
		return kList
	}
	if b, ok := isSuffixConcat(t, ".lock"); ok {
		if c.isListPath(st, b) {
			return kListLock
		}
		if _, ok := c.joinParts(st, b); ok {
			return kSubLock
		}
		return kOtherLck
	}
	if _, ok := g.tmps[t.key]; ok {
		return kTmp
	}
	if t.Op == "tmppath" {
		return kTmp
	}
	if n, ok := c.joinParts(st, t); ok {
		if isFreshName(n) {
			return kNewTable
		}
		return kTable
	}
	return kOther
}

// ---------------------------------------------------------------------------
// equality reasoning over names (index disjointness, one-step congruence)

func (c *fsClient) factLt(st *State, a, b *Term) int { return st.truth(tLt(a, b)) }

// distinctIdx: a != b follows from order facts on the path.
func (c *fsClient) distinctIdx(st *State, a, b *Term) bool {
	if a == b {
		return false
	}
	if c.factLt(st, a, b) == 1 || c.factLt(st, b, a) == 1 {
		return true
	}
	if (a.Op == "bin" || b.Op == "bin") && (provedLt(st, a, b) || provedLt(st, b, a)) {
		return true
	}
	if ia, ok := constInt(a); ok {
		if ib, ok := constInt(b); ok {
			return ia != ib
		}
	}
	// pivot: a < c <= b  or  b < c <= a ; a > c >= b or b > c >= a
	for _, k := range sortedFactKeys(st) {
		v := st.facts[k]
		_ = v
		t := st.fterm[k]
		if t.Op != "lt" {
			continue
		}
		x, y := t.Args[0], t.Args[1]
		if v {
			// x < y
			if x == a && c.factLt(st, b, y) == 0 { // a < y <= b
				return true
			}
			if x == b && c.factLt(st, a, y) == 0 {
				return true
			}
			if y == a && c.factLt(st, x, b) == 0 { // x < a and b <= x
				return true
			}
			if y == b && c.factLt(st, x, a) == 0 {
				return true
			}
		}
	}
	return false
}

// nameEq decides equality of two file-name terms: 1, 0 or -1.
func (c *fsClient) nameEq(st *State, a, b *Term) int {
	if r := st.truth(tEq(a, b)); r >= 0 {
		return r
	}
	// names of distinct elements of the same stack are distinct
	ea, oka := stackElemOfName(a)
	eb, okb := stackElemOfName(b)
	if oka && okb && ea.Args[0] == eb.Args[0] && c.distinctIdx(st, ea.Args[1], eb.Args[1]) {
		return 0
	}
	// fresh names differ from every existing name (see assumptions)
	if isFreshName(a) != isFreshName(b) {
		if !isFreshName(a) && !isFreshName(b) {
			return -1
		}
		return 0
	}
	// facts about the instances drawn by a completed loop over a list hold
	// for every member of that list
	for _, pair := range [][2]*Term{{a, b}, {b, a}} {
		m, o := pair[0], pair[1]
		for _, k := range sortedFactKeys(st) {
			t := st.fterm[k]
			if t.Op != "eq" {
				continue
			}
			for _, side := range t.Args {
				// an instance, possibly of an instance (a list built from the
				// elements of another list by a completed loop), of m
				base, done := side, true
				for base.Op == "draw" && base != m {
					if !c.loopDone(st, base.Args[1]) {
						done = false
						break
					}
					base = base.Args[0]
				}
				if side.Op == "draw" && done && base == m && side != m {
					if r := st.truth(tEq(side, o)); r >= 0 {
						return r
					}
				}
			}
		}
	}
	// one-step congruence through recorded equalities
	ca := c.classOf(st, a)
	cb := c.classOf(st, b)
	for _, x := range ca {
		for _, y := range cb {
			if x == y {
				return 1
			}
		}
	}
	for _, x := range ca {
		for _, y := range cb {
			if (x != a || y != b) && st.truth(tEq(x, y)) == 0 {
				return 0
			}
		}
	}
	return -1
}

// loopDone: idx belongs to a loop that was left through its header.
func (c *fsClient) loopDone(st *State, idx *Term) bool {
	done := false
	idx.walk(func(t *Term) {
		if t.Op == "loopall" && st.done[t.key] {
			done = true
		}
	})
	return done
}

func (c *fsClient) classOf(st *State, a *Term) []*Term {
	cl := []*Term{a}
	for _, k := range sortedFactKeys(st) {
		v := st.facts[k]
		_ = v
		if !v {
			continue
		}
		t := st.fterm[k]
		if t.Op == "eq" {
			if t.Args[0] == a {
				cl = append(cl, t.Args[1])
			} else if t.Args[1] == a {
				cl = append(cl, t.Args[0])
			}
		}
	}
	return cl
}

// stackElemOfName: name term of the form *(&elem(S,i).name).
func stackElemOfName(n *Term) (*Term, bool) {
	if n.Op == "init" && n.Args[0].Op == "field" && n.Args[0].Args[0].Op == "elem" {
		return n.Args[0].Args[0], true
	}
	return nil, false
}

// listedIn: is name a member of list l?  1 yes, 0 no, -1 cannot tell.
func (c *fsClient) listedIn(st *State, name *Term, l *Term) int {
	res := 0
	if os.Getenv("RSA_DEBUG") == "19" && name.containsOp("direntname") {
		fmt.Fprintf(os.Stderr, "LISTEDIN name=%s\n  list=%s\n", name.key, l.key)
		for _, k := range sortedFactKeys(st) {
			if strings.Contains(k, "direntname") && strings.HasPrefix(k, "eq") {
				fmt.Fprintf(os.Stderr, "  fact %s = %v\n", k, st.facts[k])
			}
		}
	}
	for _, m := range listMembers(l) {
		if m.Op == "anyelem" {
			return -1
		}
		switch c.nameEq(st, name, m) {
		case 1:
			return 1
		case -1:
			res = -1
		}
	}
	return res
}

// ---------------------------------------------------------------------------
// inlining policy

var fsOpaque = map[string]bool{
	"NewWriter": true, "NewReader": true, "NewMerged": true,
	"suggestCompactionSegment": true, "validateRefRecordAddition": true,
	"(*Stack).checkAddition": true, "(*Reader).Close": true,
}

func (c *fsClient) Inline(callee *ssa.Function) bool {
	k := funcKey(callee)
	if fsOpaque[k] || freshNameFuncs[k] {
		return false
	}
	if recv := callee.Signature.Recv(); recv != nil {
		rt := recv.Type()
		if p, ok := rt.(*types.Pointer); ok {
			rt = p.Elem()
		}
		switch {
		case types.Identical(rt, c.writerT), types.Identical(rt, c.mergedT):
			return false
		case types.Identical(rt, c.readerT):
			return k == "(*Reader).Name"
		}
	}
	return true
}

func (c *fsClient) OnStore(x *Exec, st *State, fr *Frame, pos token.Pos, addr, val, old *Term) {
	g := c.g(st)
	// LOCK-OWN (collection): a lock path whose exclusive create failed on this
	// path must not be recorded among the locks this operation will release
	if val != nil && val.Op == "list" {
		for _, m := range val.Args {
			if _, failed := g.failed[gk(m)]; !failed {
				continue
			}
			if _, held := g.held[gk(m)]; held {
				continue
			}
			if k := c.kind(st, m); k == kSubLock || k == kListLock || k == kOtherLck {
				c.violate(st, "LOCK-OWN", c.entry+" / a lock that was not acquired is recorded for release", pos, fmt.Sprintf("lock file %s is put on the list of locks to remove on a path on which its O_EXCL creation failed: the lock of another handle will be deleted and the tables it protects rewritten", k))
			}
		}
	}
	// RELOAD-COMPLETE bookkeeping: a list of readers grows by a reader for the drawn name
	if val.Op == "list" && len(x.marks) > 0 {
		cur := x.curMark()
		if d, ok := st.drawn[cur.key]; ok {
			for _, m := range val.Args {
				if m.contains(cur) || true {
					nm := x.load(st, mk("field", "Reader.name", nil, m), nil)
					if os.Getenv("RSA_DEBUG") == "5" {
						fmt.Fprintf(os.Stderr, "OnStore member %s name %s drawn %s class %v\n", m, nm, d, c.classOf(st, nm))
					}
					if !(m.contains(cur) || nm.contains(cur)) {
						continue
					}
					if undraw(nm) == d || c.nameEq(st, nm, d) == 1 {
						g.iterOK[gk(cur)] = tTrue
					} else {
						for _, e := range c.classOf(st, nm) {
							if undraw(e) == d {
								g.iterOK[gk(cur)] = tTrue
							}
						}
					}
				}
			}
		}
	}
	if addr.Op == "field" && addr.Aux == "Stack.stack" && c.isStackObj(addr.Args[0]) {
		g.setFlag("stackStored", val)
		if !g.isSet("inReload") {
			g.setFlag("validated", nil)
		}
		if val.Op == "list" && len(val.Args) > 0 {
			ln := g.flag("lastNames")
			if cpl, ok := g.complete[val.key]; !ok || ln == nil || cpl != ln {
				c.violate(st, "RELOAD-COMPLETE", c.entry+" / store to Stack.stack in "+funcKey(fr.fn), pos,
					"the reader list stored as the handle's stack is not shown to hold one reader for every name of the list just read (an iteration over the names can end without adding a reader)")
			} else {
				c.okay("RELOAD-COMPLETE", c.entry+" / store to Stack.stack in "+funcKey(fr.fn), "every iteration over the names read appends a reader of that name")
			}
		}
	}
}

func isDrawnInst(m, cur *Term) bool { return m.Op == "inst" }

// x0bin: a + b with constants folded (a, b integer terms).
func x0bin(a, b *Term) *Term {
	if cb, ok := constInt(b); ok {
		if ca, ok := constInt(a); ok {
			return tConst(strconv.FormatInt(ca+cb, 10), types.Typ[types.Int])
		}
		if t := addConst(a, cb, types.Typ[types.Int]); t != nil {
			return t
		}
	}
	return mk("bin", "+", types.Typ[types.Int], a, b)
}

func (c *fsClient) isStackObj(t *Term) bool {
	if t.Typ != nil {
		if p, ok := t.Typ.(*types.Pointer); ok {
			return types.Identical(p.Elem(), c.stackT)
		}
		if types.Identical(t.Typ, c.stackT) {
			return true
		}
	}
	return true
}

func (c *fsClient) OnBackEdge(x *Exec, st *State, fr *Frame, cur *Term)                   {}
func (c *fsClient) OnLoopLeave(x *Exec, st *State, fr *Frame, cur *Term, fromHeader bool) {}

// OnLoopExit discharges tokens that every iteration drawing them released.
func (c *fsClient) OnLoopExit(x *Exec, st *State, all *Term, backs []*State, phiLists []*Term) {
	g := c.g(st)
	curKey := strings.Replace(all.key, "loopall[", "loopcur[", 1)
	for _, set := range []map[string]*Term{g.held, g.tmps, g.inplace} {
		for k, tok := range set {
			drew, allRel := false, true
			for _, b := range backs {
				d, ok := b.drawn[curKey]
				if !ok {
					continue
				}
				if tok == d || tok.contains(d) {
					drew = true
					if _, rel := b.ghost.(*fsGhost).released[k]; !rel {
						allRel = false
					}
				}
			}
			if drew && allRel {
				delete(set, k)
			}
		}
	}
	// RELOAD-COMPLETE: every iteration that drew a name produced a reader for it
	if ln := g.flag("lastNames"); ln != nil && len(backs) > 0 {
		allOK, drewName := true, false
		for _, b := range backs {
			d, ok := b.drawn[curKey]
			if !ok {
				continue
			}
			isName := false
			for _, m := range listMembers(ln) {
				if m == d {
					isName = true
				}
			}
			if !isName {
				continue
			}
			drewName = true
			if _, ok := b.ghost.(*fsGhost).iterOK[all.key]; !ok {
				allOK = false
				if os.Getenv("RSA_DEBUG") == "3" {
					fmt.Fprintf(os.Stderr, "  back without iterOK: %v\n", witnessOf(c.p, b.trace)[max(0, len(witnessOf(c.p, b.trace))-6):])
				}
			}
		}
		if os.Getenv("RSA_DEBUG") == "3" {
			fmt.Fprintf(os.Stderr, "OnLoopExit %s backs=%d drewName=%v allOK=%v\n", all.Aux, len(backs), drewName, allOK)
		}
		if drewName && allOK {
			for _, cl := range st.mem {
				if cl.val.Op == "list" {
					g.complete[gk(cl.val)] = ln
				}
			}
			for _, l := range phiLists {
				if l.Op == "list" {
					g.complete[gk(l)] = ln
				}
			}
		}
	}
}

// ---------------------------------------------------------------------------
// call models

func errT(kind string) *Term { return mk("err", kind, nil) }

func (c *fsClient) note(st *State, pos token.Pos, format string, a ...interface{}) {
	c.events++
	st.note(pos, "event: "+format, a...)
}

func roleOf(fr *Frame, site ssa.CallInstruction) string {
	r := funcKey(fr.fn)
	if _, ok := site.(*ssa.Defer); ok {
		r += " (deferred)"
	}
	return r
}

// release removes a token, or marks it for discharge when the release
// happens inside a loop on a token that does not belong to this iteration.
func (c *fsClient) release(x *Exec, st *State, set map[string]*Term, tok *Term) {
	g := c.g(st)
	if len(x.marks) > 0 && !tok.contains(x.curMark()) {
		g.released[gk(tok)] = tok
		return
	}
	delete(set, tok.key)
}

func (c *fsClient) Call(x *Exec, st *State, fr *Frame, site ssa.CallInstruction, callee *ssa.Function, fnTerm *Term, args []*Term) (bool, []CallOut) {
	g := c.g(st)
	pos := site.Pos()
	ret := func(v *Term) (bool, []CallOut) { return true, []CallOut{{St: st, Val: v}} }
	name := ""
	if fnTerm.Op == "builtin" {
		return false, nil
	}
	if callee != nil {
		name = funcKey(callee)
	} else if fnTerm.Op == "method" {
		name = "method:" + fnTerm.Aux
	} else if fnTerm.Op == "param" || fnTerm.Op == "free" || fnTerm.Op == "init" {
		// the user's write callback (dynamic call of a function value)
		c.note(st, pos, "callback %s(...)", fnTerm)
		s2 := st.clone()
		s2.note(pos, "callback fails: the transaction's own content is rejected")
		return true, []CallOut{{St: st, Val: tNil}, {St: s2, Val: errT("CONTENT")}}
	}
	role := roleOf(fr, site)
	switch name {
	case "path/filepath.Join":
		es, ok := x.sliceElems(st, args[0])
		if !ok {
			return ret(mk("pathjoin", "", nil, args[0]))
		}
		return ret(mk("pathjoin", "", nil, es...))
	case "strings.Join":
		if l := args[0]; l.Op == "fam" || (l.Op == "subslice" && l.Args[0].Op != "list") {
			return ret(mk("strjoin", "", nil, tList(false, x.membersOf(st, fr, siteID(fr, site), l)), args[1]))
		}
		return ret(mk("strjoin", "", nil, args[0], args[1]))
	case "strings.HasSuffix", "strings.HasPrefix":
		return ret(mk("pure", name, types.Typ[types.Bool], args...))
	case "os.IsExist":
		return ret(c.errIs(args[0], "EEXIST"))
	case "os.IsNotExist":
		return ret(c.errIs(args[0], "ENOENT"))
	case "fmt.Errorf", "errors.New":
		return ret(errT("WRAPPED"))
	case "fmt.Sprintf", "fmt.Sprint":
		return false, nil
	case "os.OpenFile":
		return true, c.openFile(x, st, fr, site, args, role)
	case "os.Create":
		return true, c.openFile(x, st, fr, site, []*Term{args[0], tConst(strconv.FormatInt(c.oCreate|c.oWrite, 10), nil), tNil}, role)
	case "os.WriteFile", "io/ioutil.WriteFile":
		k := c.kind(st, args[0])
		if k == kList {
			c.violate(st, "LIST-WRITE", role+" / "+name+"(LIST)", pos, "the list file is written in place instead of being replaced by an atomic rename")
		}
		if k == kListLock || k == kSubLock || k == kOtherLck {
			// create-or-truncate by name: not the handle of the exclusive create.  If
			// the lock has been released meanwhile this takes (or clobbers) the lock
			// of another handle without the atomic test
			c.violate(st, "LOCK-EXCL", role+" / create "+k, pos, "a lock file is written by name (created or truncated without O_EXCL) instead of through the handle its exclusive creation returned: once this operation's lock is released, the same call creates or overwrites the lock of another handle")
			g.written[gk(args[0])] = args[1]
			g.wclosed[gk(args[0])] = args[0]
			c.note(st, pos, "write %s by name <- %s", k, args[1])
		}
		return ret(tNil)
	case "os.Open":
		return true, c.open(x, st, fr, site, args[0])
	case "os.Remove", "os.RemoveAll":
		c.remove(x, st, fr, site, args[0], role)
		return ret(tNil)
	case "os.Rename":
		c.rename(x, st, fr, site, args[0], args[1], role)
		return ret(tNil)
	case "io/ioutil.TempFile", "os.CreateTemp":
		h := mk("file", fr.ctx+"/"+siteID(fr, site), nil, x.curMark())
		p := mk("tmppath", fr.ctx+"/"+siteID(fr, site), nil, x.curMark())
		g.tmps[gk(p)] = p
		g.fileOf[gk(h)] = p
		if g.flag("compactFirst") != nil {
			g.setFlag("mergeStarted", tTrue)
		}
		if !c.isDir(st, args[0]) {
			c.violate(st, "PRE-COMMIT-INVISIBLE", role+" / TempFile outside the stack directory", pos, "temporary file is not created in the stack directory")
		}
		c.note(st, pos, "create TMP %s", p)
		outs := []CallOut{{St: st, Val: tupleOf(h, tNil)}}
		if c.faults {
			s2 := st.clone()
			delete(c.g(s2).tmps, p.key)
			outs = append(outs, CallOut{St: s2, Val: tupleOf(tNil, errT("IO"))})
		}
		return true, outs
	case "io/ioutil.ReadFile", "os.ReadFile":
		k := c.kind(st, args[0])
		content := mk("content", fr.ctx+"/"+siteID(fr, site), nil, x.curMark())
		c.note(st, pos, "read %s", k)
		if k == kList {
			g.setFlag("listReadInCall", tTrue)
		}
		outs := []CallOut{{St: st, Val: tupleOf(content, tNil)}}
		// rely R3: conforming handles never remove the list, so it is missing
		// only while nothing was ever committed - then every handle's stack is
		// empty, and this path cannot have committed.
		if k != kList || !g.isSet("listRenamed") {
			s2 := st.clone()
			s2.note(pos, "read %s: does not exist (nothing was ever committed)", k)
			if cur := c.currentStack(s2); k == kList && cur != nil && cur.Op != "list" && !cur.isNilConst() {
				s2.setFact(tEq(mk("len", "", nil, cur), tConst("0", nil)), true)
			}
			outs = append(outs, CallOut{St: s2, Val: tupleOf(tNil, errT("ENOENT"))})
		}
		return true, outs
	case "io/ioutil.ReadDir", "os.ReadDir":
		l := mk("dirents", fr.ctx+"/"+siteID(fr, site), nil, x.curMark())
		return ret(tupleOf(l, tNil))
	case "(*os.File).Write", "(*os.File).WriteString":
		if args[0].isNilConst() || st.truth(tEq(args[0], tNil)) == 1 {
			// a nil *os.File: the call fails with ErrInvalid and touches nothing
			return true, []CallOut{{St: st, Val: tupleOf(tConst("0", nil), errT("EINVAL"))}}
		}
		p := g.fileOf[args[0].key]
		if p != nil {
			g.written[gk(p)] = args[1]
			if _, cl := g.wclosed[p.key]; cl {
				c.violate(st, "LIST-HELD", role+" / write after close", pos, "file written after its handle was closed")
			}
			c.note(st, pos, "write %s <- %s", c.kind(st, p), args[1])
		}
		outs := []CallOut{{St: st, Val: tupleOf(mk("len", "", nil, args[1]), tNil)}}
		if c.faults {
			s2 := st.clone()
			outs = append(outs, CallOut{St: s2, Val: tupleOf(tConst("0", nil), errT("IO"))})
		}
		return true, outs
	case "(*os.File).Close":
		if args[0].isNilConst() || st.truth(tEq(args[0], tNil)) == 1 {
			return true, []CallOut{{St: st, Val: errT("EINVAL")}}
		}
		if p := g.fileOf[args[0].key]; p != nil {
			g.wclosed[gk(p)] = p
			c.note(st, pos, "close handle of %s", c.kind(st, p))
		}
		outs := []CallOut{{St: st, Val: tNil}}
		if c.faults {
			s2 := st.clone()
			outs = append(outs, CallOut{St: s2, Val: errT("IO")})
		}
		return true, outs
	case "(*os.File).Name":
		if p := g.fileOf[args[0].key]; p != nil {
			return ret(p)
		}
		return ret(mk("nameof", "", nil, args[0]))
	case "(*os.File).Stat":
		return ret(tupleOf(mk("fileinfo", "", nil, args[0]), tNil))
	case "(time.Time).Before", "(time.Time).After":
		// the deadline lies in the future when the loop is first entered
		if len(x.marks) > 0 {
			all := strings.Replace(x.curMark().key, "loopcur[", "loopall[", 1)
			if st.vac[all] {
				return ret(tTrue)
			}
		}
		return false, nil
	case "reflect.DeepEqual":
		if v := g.flag("vanished"); v != nil && (args[0] == v) != (args[1] == v) {
			// R1: a later read of the list cannot equal the version whose table vanished
			return ret(tFalse)
		}
		return ret(mk("pure", name, types.Typ[types.Bool], args...))
	case "method:(io/fs.FileInfo).Name", "method:(os.FileInfo).Name", "method:(io/fs.DirEntry).Name":
		return ret(mk("direntname", "", nil, args[0]))
	case "method:(io/fs.FileInfo).Size":
		return ret(mk("pure", name, nil, args[0]))
	case "NewWriter":
		w := mk("writer", fr.ctx+"/"+siteID(fr, site), nil, x.curMark())
		if p := g.fileOf[args[0].key]; p != nil {
			g.setFlag("writerOut:"+w.key, p)
		}
		// HASH-TYPE: every table written for the stack carries the stack's hash id
		{
			hid := x.load(st, mk("field", "Config.HashID", nil, args[1]), nil)
			ok := false
			if hid != nil && hid.Op == "init" && len(hid.Args) > 0 {
				if a := hid.Args[0]; a.Op == "field" && a.Aux == "Config.HashID" && a.Args[0].Op == "field" && a.Args[0].Aux == "Stack.cfg" {
					ok = true
				}
			}
			if os.Getenv("RSA_DEBUG") == "14" {
				fmt.Fprintf(os.Stderr, "NewWriter cfg=%s hashid=%v\n", args[1].key, hid)
			}
			// CONFIG-SAME: every option of the writer's Config is the handle's
			cfgT := c.p.namedType("Config").Underlying().(*types.Struct)
			diff := ""
			for i := 0; i < cfgT.NumFields(); i++ {
				fa := fieldAux(c.p.namedType("Config"), i)
				v := x.load(st, mk("field", fa, nil, args[1]), nil)
				same := v != nil && v.Op == "init" && len(v.Args) > 0 && v.Args[0].Op == "field" && v.Args[0].Aux == fa && v.Args[0].Args[0].Op == "field" && v.Args[0].Args[0].Aux == "Stack.cfg"
				if !same && diff == "" {
					diff = fname(cfgT.Field(i)) + " = " + fmt.Sprint(v)
				}
			}
			if diff == "" {
				c.okay("CONFIG-SAME", role+" / tables are written with the handle's configuration", "every field of the writer's Config is the handle's")
			} else {
				c.violate(st, "CONFIG-SAME", role+" / tables are written with the handle's configuration", pos, "a table written for this stack gets a configuration that differs from the handle's ("+diff+"): records rewritten by a compaction can be normalised, validated or laid out differently from how they were accepted")
			}
			if ok {
				c.okay("HASH-TYPE", role+" / new table is written with the stack's hash id", "the writer's Config.HashID is the handle's configured hash id")
			} else {
				c.violate(st, "HASH-TYPE", role+" / new table is written with the stack's hash id", pos, fmt.Sprintf("a table written for this stack gets hash id %v instead of the handle's configured one: once listed, reload and NewStack reject the stack", hid))
			}
		}
		// NewWriter fails only on an invalid Config, which is fixed per handle
		// and rejected by the first call before anything is committed.
		return true, []CallOut{{St: st, Val: tupleOf(w, tNil)}}
	case "(*Writer).Close":
		s2 := st.clone()
		s2.note(pos, "writer closed: table is empty")
		return true, []CallOut{{St: st, Val: tNil}, {St: s2, Val: mk("gval", "ErrEmptyTable", nil)}}
	case "(*Writer).SetLimits":
		return ret(nil)
	case "(*Writer).AddRef", "(*Writer).AddLog":
		// only compaction calls these directly; it re-writes records that an
		// earlier writer with the same configuration accepted, in merged key
		// order, so rejection is outside the fault-free model (advisory run only).
		if c.faults {
			s2 := st.clone()
			return true, []CallOut{{St: st, Val: tNil}, {St: s2, Val: errT("CONTENT")}}
		}
		return ret(tNil)
	case "(*Stack).checkAddition":
		c.note(st, pos, "name check of %s", c.kind(st, args[1]))
		g.setFlag("nameChecked", args[1])
		s2 := st.clone()
		s2.note(pos, "name check rejects the transaction")
		return true, []CallOut{{St: st, Val: tNil}, {St: s2, Val: errT("CONTENT")}}
	case "NewReader":
		r := mk("reader", fr.ctx+"/"+siteID(fr, site), types.NewPointer(c.readerT), x.curMark())
		x.store(st, mk("field", "Reader.name", nil, r), args[1], nil)
		x.store(st, mk("field", "Reader.src", nil, r), args[0], nil)
		c.note(st, pos, "open reader %s for %s", r, args[1])
		// a listed table is a complete valid table (C05 invariant, rely); only
		// a stray directory entry may fail to parse
		if c.faults || args[1].containsOp("direntname") {
			s2 := st.clone()
			s2.note(pos, "NewReader fails (not a valid table)")
			return true, []CallOut{{St: st, Val: tupleOf(r, tNil)}, {St: s2, Val: tupleOf(tNil, errT("FORMAT"))}}
		}
		return ret(tupleOf(r, tNil))
	case "(*Reader).Close":
		g.closedRd[gk(undraw(args[0]))] = undraw(args[0])
		c.note(st, pos, "close reader %s", args[0])
		return ret(nil)
	case "NewMerged":
		m := mk("merged", fr.ctx+"/"+siteID(fr, site), types.NewPointer(c.mergedT), x.curMark())
		g.mergedOf[gk(m)] = args[0]
		// listed tables have increasing update-index ranges and the stack's
		// hash id (C05 invariant, rely; the hash accessor is checked by the
		// sibling rule ACCESSOR), so NewMerged fails only in the advisory run
		if c.faults {
			s2 := st.clone()
			s2.note(pos, "NewMerged fails")
			return true, []CallOut{{St: st, Val: tupleOf(m, tNil)}, {St: s2, Val: tupleOf(tNil, errT("MERGE"))}}
		}
		return ret(tupleOf(m, tNil))
	case "(*Stack).AutoCompact":
		// compositional: AutoCompact is analysed as an entry point of its own
		// from an arbitrary idle handle; here only its abstract results matter.
		rets, ok := c.summaries[name]
		if !ok || c.entry == name {
			return false, nil
		}
		if len(g.held) > 0 || len(g.tmps) > 0 {
			c.violate(st, "PAIR-LOCK", role+" / compaction started while owning files", pos, "automatic compaction is started while this operation still owns a lock or temp file")
		}
		var outs []CallOut
		for i, rv := range rets {
			s := st
			if i < len(rets)-1 {
				s = st.clone()
			}
			gg := c.g(s)
			root := gg.flag("stackRoot")
			x.store(s, mk("field", "Stack.stack", nil, root), mk("opaquestack", fr.ctx+"/"+siteID(fr, site), nil), nil)
			gg.setFlag("stackStored", nil)
			s.note(pos, "event: automatic compaction (summarised) returns %s", rv)
			outs = append(outs, CallOut{St: s, Val: rv})
		}
		return true, outs
	case "(*Merged).SeekRef", "(*Merged).SeekLog", "(*Reader).SeekRef", "(*Reader).SeekLog":
		// reading valid listed tables fails only on I/O faults
		it := mk("nonnil", "", nil, mk("iter", fr.ctx+"/"+siteID(fr, site), nil, x.curMark()))
		if c.faults {
			s2 := st.clone()
			return true, []CallOut{{St: st, Val: tupleOf(it, tNil)}, {St: s2, Val: tupleOf(tNil, errT("IO"))}}
		}
		return ret(tupleOf(it, tNil))
	case "(*Iterator).NextRef", "(*Iterator).NextLog":
		more := x.fresh("unk", fr, "more."+siteID(fr, site), types.Typ[types.Bool])
		if c.faults {
			s2 := st.clone()
			return true, []CallOut{{St: st, Val: tupleOf(more, tNil)}, {St: s2, Val: tupleOf(tFalse, errT("IO"))}}
		}
		return ret(tupleOf(more, tNil))
	case "suggestCompactionSegment":
		seg := mk("segment", fr.ctx+"/"+siteID(fr, site), nil, x.curMark())
		s2 := st.clone()
		return true, []CallOut{{St: st, Val: mk("nonnil", "", nil, seg)}, {St: s2, Val: tNil}}
	}
	return false, nil
}

func (c *fsClient) errIs(e *Term, kind string) *Term {
	switch {
	case e.isNilConst():
		return tFalse
	case e.Op == "err":
		return tBool(e.Aux == kind)
	case e.Op == "gval":
		return tFalse
	}
	return mk("pure", "errIs"+kind, types.Typ[types.Bool], e)
}

func (c *fsClient) flagsOf(t *Term) (int64, bool) { return constInt(t) }

func (c *fsClient) openFile(x *Exec, st *State, fr *Frame, site ssa.CallInstruction, args []*Term, role string) []CallOut {
	g := c.g(st)
	pos := site.Pos()
	p := args[0]
	k := c.kind(st, p)
	fl, fok := c.flagsOf(args[1])
	h := mk("file", fr.ctx+"/"+siteID(fr, site), nil, x.curMark())
	isLock := k == kListLock || k == kSubLock || k == kOtherLck
	if isLock {
		key := role + " / create " + k
		if !fok || fl&c.oExcl == 0 || fl&c.oCreate == 0 {
			c.violate(st, "LOCK-EXCL", key, pos, "lock file created without O_EXCL|O_CREATE: creation is not an atomic test-and-set")
		} else {
			c.okay("LOCK-EXCL", key, "flags contain O_EXCL|O_CREATE")
		}
		g.setFlag("lockAttempt", tTrue)
		s2 := st.clone()
		g2 := c.g(s2)
		g2.failed[gk(p)] = p
		s2.note(pos, "event: O_EXCL create of %s %s: already exists (held by another handle)", k, p)
		g.held[gk(p)] = p
		g.fileOf[gk(h)] = p
		delete(g.written, p.key)
		delete(g.wclosed, p.key)
		if k == kListLock {
			g.setFlag("validated", nil)
		}
		outs := []CallOut{{St: st, Val: tupleOf(h, tNil)}, {St: s2, Val: tupleOf(tNil, errT("EEXIST"))}}
		if c.lockFaults {
			// the create can also fail for a reason that says nothing about the
			// lock (EMFILE, ENOSPC, EACCES): nothing was acquired
			s3 := s2.clone()
			c.g(s3).setFlag("acqFault", tTrue)
			s3.note(pos, "event: O_EXCL create of %s %s fails with another error (e.g. EMFILE): nothing acquired", k, p)
			outs = append(outs, CallOut{St: s3, Val: tupleOf(tNil, errT("EOTHER"))})
		}
		c.note(st, pos, "acquire %s %s", k, p)
		return outs
	}
	if fok && fl&(c.oCreate|c.oWrite) != 0 {
		if k == kList {
			c.violate(st, "LIST-WRITE", role+" / open LIST for writing", pos, "the list file is opened for writing in place; it may only be replaced by renaming a complete file onto it")
		}
		if k == kTable {
			c.violate(st, "PRE-COMMIT-INVISIBLE", role+" / open table for writing", pos, "an existing table file is opened for writing")
		}
	}
	g.fileOf[gk(h)] = p
	return []CallOut{{St: st, Val: tupleOf(h, tNil)}}
}

func (c *fsClient) open(x *Exec, st *State, fr *Frame, site ssa.CallInstruction, p *Term) []CallOut {
	h := mk("file", fr.ctx+"/"+siteID(fr, site), nil, x.curMark())
	c.g(st).fileOf[gk(h)] = p
	// rely R1: a table named by the current list exists; while this operation
	// holds the list lock nobody can replace the list, so a listed table
	// cannot vanish between the list read and the open.
	if c.holdsListLock(st) && c.kind(st, p) == kTable {
		if n, ok := c.joinParts(st, undraw(p)); ok && !n.containsOp("direntname") {
			return []CallOut{{St: st, Val: tupleOf(h, tNil)}}
		}
	}
	s2 := st.clone()
	s2.note(site.Pos(), "event: open %s: does not exist (removed by a concurrent compaction)", p)
	if ln := c.g(s2).flag("lastNames"); ln != nil {
		// rely R1: the list version that named the vanished table is no longer current
		c.g(s2).setFlag("vanished", ln)
	}
	return []CallOut{{St: st, Val: tupleOf(h, tNil)}, {St: s2, Val: tupleOf(tNil, errT("ENOENT"))}}
}

// referenceList is the list against which "visible" is judged.
func (c *fsClient) referenceList(st *State) (*Term, string) {
	g := c.g(st)
	if l := g.flag("committed"); l != nil && !g.isSet("readAfterCommit") {
		return l, "the list this operation just committed"
	}
	if l := g.flag("lastNames"); l != nil {
		return l, "the list most recently read by this handle"
	}
	return nil, ""
}

func (c *fsClient) remove(x *Exec, st *State, fr *Frame, site ssa.CallInstruction, p *Term, role string) {
	g := c.g(st)
	pInst := p
	p = undraw(p)
	_ = pInst
	pos := site.Pos()
	k := c.kind(st, p)
	c.note(st, pos, "remove %s %s", k, p)
	switch k {
	case kListLock, kSubLock, kOtherLck:
		key := role + " / remove " + k
		if _, ok := g.held[p.key]; !ok {
			why := "this operation does not hold it"
			if _, f := g.failed[p.key]; f {
				why = "its O_EXCL creation failed on this path: the file belongs to another handle"
			}
			c.violate(st, "LOCK-OWN", key, pos, fmt.Sprintf("lock file %s removed although %s", k, why))
		} else {
			c.okay("LOCK-OWN", key, "removed only while held by its creator")
			c.release(x, st, g.held, p)
		}
		if k == kListLock {
			g.setFlag("validated", nil)
		}
	case kList:
		c.violate(st, "LIST-WRITE", role+" / remove LIST", pos, "the list file is removed; readers would see an empty stack")
	case kTmp:
		c.release(x, st, g.tmps, p)
	case kNewTable:
		if _, mine := g.inplace[p.key]; mine {
			if l := g.flag("committed"); l != nil {
				if n, ok := c.joinParts(st, p); ok && c.listedIn(st, n, l) != 0 {
					c.violate(st, "ORDER-DELETE-LAST", role+" / remove committed new table", pos, "a table named by the list just committed is removed")
				}
			}
			c.release(x, st, g.inplace, p)
		}
	case kTable:
		c.removeTable(x, st, fr, site, pInst, role)
	default:
		if p.Op == "nameof" || p.Op == "call" {
			return
		}
		c.violate(st, "PRE-COMMIT-INVISIBLE", role+" / remove of unclassified path", pos, fmt.Sprintf("cannot show that %s is neither a lock nor a listed table", p))
	}
}

func (c *fsClient) removeTable(x *Exec, st *State, fr *Frame, site ssa.CallInstruction, pInst *Term, role string) {
	g := c.g(st)
	pos := site.Pos()
	p := undraw(pInst)
	name, ok := c.joinParts(st, pInst)
	if !ok {
		name, _ = c.joinParts(st, p)
	}
	key := role + " / remove table"
	if name.containsOp("direntname") {
		// LOCK-OWN for garbage collection: a directory entry is removed only on a
		// path that established a suffix which a lock file cannot have
		suffix := ""
		for _, k := range sortedFactKeys(st) {
			v := st.facts[k]
			_ = v
			t := st.fterm[k]
			if !v || t == nil || t.Op != "pure" || t.Aux != "strings.HasSuffix" || len(t.Args) != 2 {
				continue
			}
			if t.Args[0] != name && undraw(t.Args[0]) != undraw(name) {
				continue
			}
			if sfx, ok := constString(t.Args[1]); ok && (suffix == "" || !strings.HasSuffix(sfx, ".lock")) {
				suffix = sfx
			}
		}
		if suffix != "" && !strings.HasSuffix(suffix, ".lock") {
			c.okay("LOCK-OWN", role+" / removal of directory entries spares lock files", "only entries ending in "+strconv.Quote(suffix)+" are removed")
		} else {
			c.violate(st, "LOCK-OWN", role+" / removal of directory entries spares lock files", pos, "a directory entry is removed on a path that does not exclude lock files (suffix established: "+strconv.Quote(suffix)+"): a lock created by another handle can be deleted, so two compactions may rewrite the same table")
		}
		if g.flag("validated") == nil {
			c.violate(st, "LIST-VALID", role+" / remove in Clean", pos, "Clean removes a file without holding the list lock with an up-to-date view")
		} else {
			c.okay("LIST-VALID", role+" / remove in Clean", "removal under the lock after validation")
		}
	}
	if _, mine := g.inplace[p.key]; mine && g.flag("committed") == nil {
		c.release(x, st, g.inplace, p)
		return
	}
	ref, what := c.referenceList(st)
	if ref == nil {
		c.violate(st, "ORDER-DELETE-LAST", key, pos, "a table file is removed although this operation has neither committed a list that omits it nor read a list that does not name it")
		return
	}
	if g.flag("committed") == nil && len(g.held) == 0 && false {
		_ = what
	}
	switch c.listedIn(st, name, ref) {
	case 0:
		c.okay("ORDER-DELETE-LAST", key, "removed table is not named by "+what)
	case 1:
		c.violate(st, "ORDER-DELETE-LAST", key, pos, "a table named by "+what+" is removed")
	default:
		c.violate(st, "ORDER-DELETE-LAST", key, pos, "cannot show that the removed table "+name.String()+" is not named by "+what)
	}
}

func (c *fsClient) rename(x *Exec, st *State, fr *Frame, site ssa.CallInstruction, a, b *Term, role string) {
	g := c.g(st)
	a, b = undraw(a), undraw(b)
	pos := site.Pos()
	ka, kb := c.kind(st, a), c.kind(st, b)
	c.note(st, pos, "rename %s -> %s", ka, kb)
	if kb == kList {
		c.commitList(x, st, fr, site, a, ka, role)
		return
	}
	if ka == kListLock || ka == kSubLock || ka == kOtherLck {
		c.violate(st, "LOCK-OWN", role+" / rename lock away", pos, "a lock file is renamed to something other than the list")
		delete(g.held, a.key)
		return
	}
	if kb == kTable {
		c.violate(st, "PRE-COMMIT-INVISIBLE", role+" / rename onto existing table", pos, "a file is renamed onto the name of an existing table")
		if ka == kTmp {
			c.violate(st, "NAME-FRESH", role+" / new table is published under a fresh name", pos, "a new table is renamed into place under a name that is not drawn fresh for this table (no math/rand draw in the call that formats it): the same name can come to denote different contents, and handles that reuse open readers by name then mix versions")
		}
		return
	}
	if ka == kTmp && kb == kNewTable {
		c.okay("NAME-FRESH", role+" / new table is published under a fresh name", "the name is formatted around a random number drawn for this table")
		if _, ok := g.tmps[a.key]; !ok {
			c.violate(st, "PAIR-TMP", role+" / rename of removed temp", pos, "temp file renamed after it was removed")
		}
		delete(g.tmps, a.key)
		g.inplace[gk(b)] = b
		if _, cl := g.wclosed[a.key]; !cl {
			c.violate(st, "ORDER-TABLE-FIRST", role+" / table renamed before close", pos, "new table is renamed into place before its file handle is closed")
		}
		// update-index gate (C05/C09): the table's minimum must not be below the floor
		c.checkGate(st, fr, site, a, role)
		// name check gate (C12): the very file renamed passed the name check
		if strings.Contains(role, "Addition") {
			if g.flag("nameChecked") == a {
				c.okay("NAMECHECK-GATE", role+" / table listed only after the name check", "checkAddition(tmp) returned nil before the rename")
			} else {
				c.violate(st, "NAMECHECK-GATE", role+" / table listed only after the name check", pos, "a new table is renamed into place on a path on which the name check has not accepted it")
			}
		}
		return
	}
	if kb == kListLock || kb == kSubLock {
		c.violate(st, "LOCK-OWN", role+" / rename onto lock", pos, "a file is renamed onto a lock path")
		return
	}
	if ka == kTmp {
		delete(g.tmps, a.key)
	}
}

func (c *fsClient) checkGate(st *State, fr *Frame, site ssa.CallInstruction, tmp *Term, role string) {
	g := c.g(st)
	floor := g.flag("floor")
	if floor == nil || !strings.Contains(role, "Addition") {
		return
	}
	var w *Term
	for k, p := range g.flags {
		if strings.HasPrefix(k, "writerOut:") && p == tmp {
			w = termByKey(strings.TrimPrefix(k, "writerOut:"))
		}
	}
	if w == nil {
		c.violate(st, "GATE-IDX", role+" / new table without writer", site.Pos(), "cannot identify the writer of the table being listed")
		return
	}
	min := mk("init", "", nil, mk("field", "Writer.minUpdateIndex", nil, w))
	if st.truth(tLt(min, floor)) == 0 {
		c.okay("GATE-IDX", role+" / table listed only if min >= next", "minimum update index compared with the next index of the transaction")
	} else {
		c.violate(st, "GATE-IDX", role+" / table listed only if min >= next", site.Pos(),
			fmt.Sprintf("a table is renamed into place on a path that did not establish writer.min >= %s (the update index following everything this transaction builds on)", floor))
	}
	// the next transaction's floor is max+1: that only moves forward if the table's
	// own range is not inverted (a writer callback may declare any limits)
	max := mk("init", "", nil, mk("field", "Writer.maxUpdateIndex", nil, w))
	if st.truth(tLt(max, min)) == 0 {
		c.okay("GATE-IDX", role+" / table listed only if its range is not inverted", "max update index compared with the minimum")
	} else {
		c.violate(st, "GATE-IDX", role+" / table listed only if its range is not inverted", site.Pos(),
			"a table is renamed into place on a path that did not establish writer.max >= writer.min: with inverted limits the next update index (max+1) lies below this table's minimum, so later tables overlap or precede it")
	}
	g.setFlag("floor", mk("bin", "+", nil, mk("init", "", nil, mk("field", "Writer.maxUpdateIndex", nil, w)), tConst("1", nil)))
}

func termByKey(k string) *Term { return termTab[k] }

// commitList handles Rename(x, LIST).
func (c *fsClient) commitList(x *Exec, st *State, fr *Frame, site ssa.CallInstruction, a *Term, ka string, role string) {
	g := c.g(st)
	pos := site.Pos()
	// LIST-WRITE: only a file this operation created
	_, isHeld := g.held[a.key]
	_, isTmp := g.tmps[a.key]
	if !isHeld && !isTmp {
		c.violate(st, "LIST-WRITE", role+" / rename onto LIST", pos, "the file renamed onto the list was not created by this operation (or its lock is no longer held)")
	} else {
		c.okay("LIST-WRITE", role+" / rename onto LIST", "list replaced by rename of a file created by this operation")
	}
	// LIST-HELD
	holds := false
	for _, t := range g.held {
		if c.kind(st, t) == kListLock {
			holds = true
		}
	}
	if !holds {
		why := ""
		for _, t := range g.failed {
			if c.kind(st, t) == kListLock {
				why = " (its O_EXCL creation failed on this path)"
			}
		}
		c.violate(st, "LIST-HELD", role+" / rename onto LIST", pos, "list renamed while this operation does not hold the list lock"+why)
	} else {
		c.okay("LIST-HELD", role+" / rename onto LIST", "list lock held at the rename")
	}
	content, wrote := g.written[a.key]
	_, closed := g.wclosed[a.key]
	if !wrote || !closed {
		c.violate(st, "LIST-COMPLETE", role+" / rename onto LIST", pos, "the renamed file was not written and closed before the rename (a reader or a crash could see a partial list)")
	} else {
		c.okay("LIST-COMPLETE", role+" / rename onto LIST", "content written and handle closed before the rename")
	}
	// LIST-VALID
	if g.flag("validated") == nil {
		c.violate(st, "LIST-VALID", role+" / rename onto LIST", pos, "the list is replaced without an up-to-date check during the current tenure of the list lock (another handle may have committed in between: lost update)")
	} else {
		c.okay("LIST-VALID", role+" / rename onto LIST", "validated under the current lock tenure")
	}
	// LIST-CONTENT
	var list *Term
	if wrote && content.Op == "strjoin" {
		list = content.Args[0]
		if s, ok := constString(content.Args[1]); !ok || s != "\n" {
			c.violate(st, "LIST-CONTENT", role+" / separator", pos, "list entries are not joined by newline")
		}
		c.checkContent(st, fr, pos, list, role)
	} else if wrote {
		c.violate(st, "LIST-CONTENT", role+" / content", pos, "cannot recognise the written list content "+content.String())
	}
	g.setFlag("committed", list)
	if list == nil {
		g.setFlag("committed", tList(false, nil))
	}
	g.setFlag("listRenamed", tTrue)
	g.setFlag("readAfterCommit", nil)
	if g.flag("compactFirst") != nil {
		g.setFlag("compactCommitted", tTrue)
	}
	if strings.Contains(role, "Addition") {
		g.setFlag("commitRenamed", tTrue)
	}
	delete(g.held, a.key)
	delete(g.tmps, a.key)
	g.setFlag("validated", nil)
	// tables now listed are committed
	for k, p := range g.inplace {
		if n, ok := c.joinParts(st, p); ok && list != nil && c.listedIn(st, n, list) == 1 {
			delete(g.inplace, k)
		}
	}
}

// checkContent: every member is the name of a reader of the validated stack
// or a new table already in place; for compaction the kept members are
// exactly the complement of [first,last].
func (c *fsClient) checkContent(st *State, fr *Frame, pos token.Pos, list *Term, role string) {
	g := c.g(st)
	cur := c.currentStack(st)
	val := g.flag("validated")
	if val != nil && cur != nil && val != cur {
		c.violate(st, "LIST-CONTENT", role+" / stack changed after validation", pos, "the in-memory stack was replaced after the up-to-date check")
	}
	compaction := g.flag("compactFirst") != nil
	nOld := 0
	hasPre, hasSuf := false, false
	for _, m := range listMembers(list) {
		if isFreshName(m) || (m.Op == "bin" && isFreshName(m)) {
			// new table: must be in place
			found := false
			for _, p := range g.inplace {
				if n, ok := c.joinParts(st, p); ok && n == m {
					found = true
				}
			}
			if !found {
				c.violate(st, "ORDER-TABLE-FIRST", role+" / listed new table", pos, "the list names a new table that has not been renamed into place")
			} else {
				c.okay("ORDER-TABLE-FIRST", role+" / listed new table", "new table renamed into place before the list names it")
			}
			continue
		}
		e, ok := stackElemOfName(m)
		if m.Op == "anyelem" {
			c.violate(st, "LIST-CONTENT", role+" / opaque members", pos, "list content "+m.String()+" cannot be related to the validated stack")
			continue
		}
		if !ok || cur == nil || e.Args[0] != cur {
			c.violate(st, "LIST-CONTENT", role+" / member not from validated stack", pos, "the list names "+m.String()+", which is not the name of a table of the stack validated under the lock")
			continue
		}
		nOld++
		if compaction {
			first, last := g.flag("compactFirst"), g.flag("compactLast")
			idx := e.Args[1]
			zero := tConst("0", nil)
			pre := provedLt(st, idx, first) && provedLe(st, zero, idx)
			suf := provedLt(st, last, idx) && provedLt(st, idx, mk("len", "", types.Typ[types.Int], cur))
			if pre {
				hasPre = true
			}
			if suf {
				hasSuf = true
			}
			if !pre && !suf {
				c.violate(st, "LIST-CONTENT", role+" / range partition", pos, "a kept table "+m.String()+" is not shown to lie in [0,first) or (last,len): the kept ranges and the compacted range do not partition the stack")
			} else {
				c.okay("LIST-CONTENT", role+" / range partition", "kept tables lie in [0,first) and (last,len)")
			}
		}
	}
	if compaction && nOld == 0 {
		// nothing is kept (the range is the whole stack): the partition holds trivially
		c.okay("LIST-CONTENT", role+" / range partition", "kept tables lie in [0,first) and (last,len)")
	}
	if compaction && cur != nil {
		// the tables outside the range stay listed: when the path leaves open that
		// there are tables below first (above last), the list has members from there
		first, last := g.flag("compactFirst"), g.flag("compactLast")
		one := tConst("1", types.Typ[types.Int])
		lenT := mk("len", "", types.Typ[types.Int], cur)
		belowPossible := st.truth(tLt(tConst("0", types.Typ[types.Int]), first)) != 0 && !provedLe(st, first, tConst("0", types.Typ[types.Int]))
		abovePossible := st.truth(tLt(x0bin(last, one), lenT)) != 0 && !provedLe(st, lenT, x0bin(last, one))
		switch {
		case belowPossible && !hasPre:
			c.violate(st, "LIST-CONTENT", role+" / tables outside the range stay listed", pos, "the new list names no table below the compacted range although the path leaves open that there are some: committed tables under the range are dropped from the list (and unlinked afterwards)")
		case abovePossible && !hasSuf:
			c.violate(st, "LIST-CONTENT", role+" / tables outside the range stay listed", pos, "the new list names no table above the compacted range although the path leaves open that there are some: committed tables on top of the range are dropped from the list (and unlinked afterwards)")
		default:
			c.okay("LIST-CONTENT", role+" / tables outside the range stay listed", "tables below first and above last are named whenever there can be any")
		}
	}
	if !compaction {
		// addition: all of the validated stack must be kept
		knownEmpty := cur != nil && st.truth(tLt(tConst("0", nil), mk("len", "", nil, cur))) == 0
		if cur != nil && nOld == 0 && !(cur.Op == "list" && len(cur.Args) == 0) && !knownEmpty {
			c.violate(st, "LIST-CONTENT", role+" / old tables kept", pos, "the new list does not contain the names of the validated stack")
		} else {
			c.okay("LIST-CONTENT", role+" / old tables kept", "list = names of the validated stack + new tables")
		}
		for _, p := range g.inplace {
			if n, ok := c.joinParts(st, p); ok && c.listedIn(st, n, list) != 1 {
				c.violate(st, "LIST-CONTENT", role+" / new table not listed", pos, "a new table renamed into place is not named by the committed list (orphan)")
			}
		}
	}
}

// currentStack: the value of the analysed handle's stack field.
func (c *fsClient) currentStack(st *State) *Term {
	r := c.g(st).flag("stackRoot")
	if r == nil {
		return nil
	}
	addr := mk("field", "Stack.stack", nil, r)
	if cl, ok := st.mem[addr.key]; ok {
		return cl.val
	}
	return mk("init", "", nil, addr)
}

func sortedKeys(m map[string]*Term) []string {
	var ks []string
	for k := range m {
		ks = append(ks, k)
	}
	sort.Strings(ks)
	return ks
}
