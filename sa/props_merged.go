package main

import (
	"fmt"
	"go/token"
	"go/types"
	"os"
	"sort"
	"strings"

	"golang.org/x/tools/go/ssa"
)

// Merged view (C03): decision tables DT-PQ, DT-SHADOW, DT-SUPPRESS,
// DT-MERGE-PRE and the dataflow rules INDEX-STABLE, ENTRY-INDEX, SEEK-ALL,
// SEEK-MERGED.  Anchors are resolved by type structure and signatures.

type mergedAnchors struct {
	entryT    *types.Named // pqEntry: struct{ record; int }
	recField  string
	idxField  string
	heapT     *types.Named // struct{ []pqEntry }
	iterT     *types.Named // mergedIter: struct with a heap field
	less      *ssa.Function
	hTop      *ssa.Function
	hRemove   *ssa.Function
	hAdd      *ssa.Function
	hEmpty    *ssa.Function
	next      *ssa.Function // mergedIter.Next (exported iterator interface method)
	producer  *ssa.Function // the method that removes from the heap
	advance   *ssa.Function
	initF     *ssa.Function
	seekRec   *ssa.Function // (*Merged).seekRecord
	newMerged *ssa.Function
	// iterator methods through which init/advance reach the heap's add
	fillHelpers []string
}

func resolveMergedAnchors(p *Program) *mergedAnchors {
	a := &mergedAnchors{}
	scope := p.Main.Types.Scope()
	isIface := func(t types.Type) bool { _, ok := t.Underlying().(*types.Interface); return ok }
	isInt := func(t types.Type) bool {
		b, ok := t.Underlying().(*types.Basic)
		return ok && b.Kind() == types.Int
	}
	for _, n := range scope.Names() {
		tn, ok := scope.Lookup(n).(*types.TypeName)
		if !ok {
			continue
		}
		nt, ok := tn.Type().(*types.Named)
		if !ok {
			continue
		}
		st, ok := nt.Underlying().(*types.Struct)
		if !ok {
			continue
		}
		if st.NumFields() == 2 {
			var rf, xf string
			for i := 0; i < 2; i++ {
				if nt2, ok := st.Field(i).Type().(*types.Named); ok && isIface(nt2) && nt2.Obj().Pkg() == p.Main.Types {
					rf = fname(st.Field(i))
				}
				if isInt(st.Field(i).Type()) {
					xf = fname(st.Field(i))
				}
			}
			if rf != "" && xf != "" {
				if a.entryT != nil {
					fatalf("unresolved anchor: two candidate heap entry types (%s, %s)", a.entryT, nt)
				}
				a.entryT, a.recField, a.idxField = nt, rf, xf
			}
		}
	}
	if a.entryT == nil {
		fatalf("unresolved anchor: heap entry type struct{record; int}")
	}
	for _, n := range scope.Names() {
		tn, ok := scope.Lookup(n).(*types.TypeName)
		if !ok {
			continue
		}
		nt, ok := tn.Type().(*types.Named)
		if !ok {
			continue
		}
		st, ok := nt.Underlying().(*types.Struct)
		if !ok {
			continue
		}
		if st.NumFields() == 1 {
			if sl, ok := st.Field(0).Type().(*types.Slice); ok && types.Identical(sl.Elem(), a.entryT) {
				a.heapT = nt
			}
		}
	}
	if a.heapT == nil {
		fatalf("unresolved anchor: heap type struct{[]%s}", a.entryT.Obj().Name())
	}
	for _, n := range scope.Names() {
		tn, ok := scope.Lookup(n).(*types.TypeName)
		if !ok {
			continue
		}
		nt, ok := tn.Type().(*types.Named)
		if !ok {
			continue
		}
		st, ok := nt.Underlying().(*types.Struct)
		if !ok {
			continue
		}
		for i := 0; i < st.NumFields(); i++ {
			if types.Identical(st.Field(i).Type(), a.heapT) {
				a.iterT = nt
			}
		}
	}
	if a.iterT == nil {
		fatalf("unresolved anchor: merged iterator type (struct with a %s field)", a.heapT.Obj().Name())
	}
	recvIs := func(f *ssa.Function, t *types.Named) bool {
		r := f.Signature.Recv()
		if r == nil {
			return false
		}
		rt := r.Type()
		if pt, ok := rt.(*types.Pointer); ok {
			rt = pt.Elem()
		}
		return types.Identical(rt, t)
	}
	hasStore := func(f *ssa.Function) bool {
		for _, b := range f.Blocks {
			for _, ins := range b.Instrs {
				if _, ok := ins.(*ssa.Store); ok {
					return true
				}
			}
		}
		return false
	}
	for _, f := range p.Funcs {
		if f.Parent() != nil {
			continue
		}
		sig := f.Signature
		if sig.Recv() == nil && sig.Params().Len() == 2 && sig.Results().Len() == 1 &&
			types.Identical(sig.Params().At(0).Type(), a.entryT) && types.Identical(sig.Params().At(1).Type(), a.entryT) {
			if b, ok := sig.Results().At(0).Type().Underlying().(*types.Basic); ok && b.Kind() == types.Bool {
				if a.less != nil {
					fatalf("unresolved anchor: two heap order functions")
				}
				a.less = f
			}
		}
		if recvIs(f, a.heapT) {
			switch {
			case sig.Params().Len() == 0 && sig.Results().Len() == 1 && types.Identical(sig.Results().At(0).Type(), a.entryT):
				if hasStore(f) {
					a.hRemove = f
				} else {
					a.hTop = f
				}
			case sig.Params().Len() == 1 && types.Identical(sig.Params().At(0).Type(), a.entryT) && sig.Results().Len() == 0:
				a.hAdd = f
			case sig.Params().Len() == 0 && sig.Results().Len() == 1 && !hasStore(f):
				if b, ok := sig.Results().At(0).Type().Underlying().(*types.Basic); ok && b.Kind() == types.Bool {
					a.hEmpty = f
				}
			}
		}
	}
	if a.less == nil || a.hTop == nil || a.hRemove == nil || a.hAdd == nil || a.hEmpty == nil {
		fatalf("unresolved anchor: heap order/top/remove/add/isEmpty (%v %v %v %v %v)", a.less != nil, a.hTop != nil, a.hRemove != nil, a.hAdd != nil, a.hEmpty != nil)
	}
	for _, f := range p.Funcs {
		if f.Parent() != nil || !recvIs(f, a.iterT) {
			continue
		}
		dc := directCallees(f)
		// a method fills the heap if it calls the heap's add itself or through a
		// helper method of the iterator (e.g. a shared "pull one record" helper)
		fills := dc[funcKey(a.hAdd)]
		for k := range dc {
			if g := p.Func(k); g != nil && g != f && recvIs(g, a.iterT) && directCallees(g)[funcKey(a.hAdd)] {
				fills = true
				a.fillHelpers = append(a.fillHelpers, funcKey(g))
			}
		}
		switch {
		case dc[funcKey(a.hRemove)]:
			a.producer = f
		case fills && f.Signature.Params().Len() == 1:
			a.advance = f
		case fills && f.Signature.Params().Len() == 0:
			a.initF = f
		case f.Name() == "Next":
			a.next = f
		}
	}
	if a.producer == nil || a.advance == nil || a.initF == nil || a.next == nil {
		// the heap itself is still analysable: report what its sift loops do
		// before giving up on the iterator rules
		if mergedPartialReport != nil {
			checkHeapSift(p, mergedPartialReport, a)
		}
		fatalf("unresolved anchor: merged iterator methods (producer %v, advance %v, init %v, Next %v)", a.producer != nil, a.advance != nil, a.initF != nil, a.next != nil)
	}
	a.newMerged = p.MustFunc("NewMerged")
	mergedT := p.namedType("Merged")
	for _, f := range p.Funcs {
		if f.Parent() == nil && recvIs(f, mergedT) && f.Signature.Results().Len() == 2 && f.Signature.Params().Len() == 1 {
			if isIface(f.Signature.Params().At(0).Type()) && isIface(f.Signature.Results().At(0).Type()) {
				if _, exported := map[bool]bool{token.IsExported(f.Name()): true}[true]; !exported {
					a.seekRec = f
				}
			}
		}
	}
	if a.seekRec == nil {
		fatalf("unresolved anchor: (*Merged) seek method taking a record")
	}
	return a
}

func fieldOfParam(fn *ssa.Function, i int, field string, typ types.Type) *Term {
	pa := fn.Params[i]
	return mk("fieldof", field, typ, mk("param", funcKey(fn)+"."+pa.Name(), pa.Type()))
}

// mergedPartialReport receives the heap rules when the iterator anchors are lost.
var mergedPartialReport *Report

func checkMergedView(p *Program, r *Report) {
	mergedPartialReport = r
	a := resolveMergedAnchors(p)
	mergedPartialReport = nil
	keyName := "method:(record).key"
	// ---- DT-PQ
	{
		cfg := &simCfg{Pure: map[string]bool{keyName: true}, NoInlineDefault: true}
		c, _ := runSim(p, a.less, cfg, nil)
		est := a.entryT.Underlying().(*types.Struct)
		var recT, idxT types.Type
		for i := 0; i < est.NumFields(); i++ {
			if fname(est.Field(i)) == a.recField {
				recT = est.Field(i).Type()
			} else {
				idxT = est.Field(i).Type()
			}
		}
		K := func(i int) *Term { return mk("pcall", keyName, nil, fieldOfParam(a.less, i, a.recField, recT)) }
		I := func(i int) *Term { return fieldOfParam(a.less, i, a.idxField, idxT) }
		ka, kb, ia, ib := K(0), K(1), I(0), I(1)
		n := 0
		for _, s := range c.Samples {
			if s.Kind != "ret" || s.Panic {
				continue
			}
			n++
			R := fAtom(s.Vals[0])
			spec := fAnd(
				fImplies(fAtom(tLt(ka, kb)), R),
				fImplies(fAtom(tLt(kb, ka)), fNot(R)),
				fImplies(fAnd(fAtom(tEq(ka, kb)), fAtom(tLt(ib, ia))), R),
				fImplies(fAnd(fAtom(tEq(ka, kb)), fAtom(tLt(ia, ib))), fNot(R)))
			if ok, cex := implied(s.St, spec); !ok {
				r.violate("DT-PQ", funcKey(a.less)+" / key ascending, then table index descending", p.pos(a.less.Pos()),
					"heap order is not (smaller key first; among equal keys the higher table index first) for: "+cex, witnessOf(p, s.St.trace))
			} else {
				r.ok("DT-PQ", funcKey(a.less)+" / key ascending, then table index descending", "all valuations of K(a)?K(b), I(a)?I(b) agree with the specification")
			}
		}
		r.floor("DT-PQ", n, 1, "return paths of the heap order function")
	}
	// ---- DT-SHADOW + first-removed + advance pairing in the entry producer
	{
		top, rem, adv := funcKey(a.hTop), funcKey(a.hRemove), funcKey(a.advance)
		cfg := &simCfg{
			Event:           map[string]bool{top: true, rem: true, adv: true, "method:(record).copyFrom": true, funcKey(a.hEmpty): true},
			Pure:            map[string]bool{keyName: true},
			NoInlineDefault: true,
			// helper methods of the iterator extracted from the producer (e.g. the
			// shadow loop on its own) are analysed as part of it
			Inline: iterHelpers(p, a, a.producer),
		}
		c, _ := runSim(p, a.producer, cfg, nil)
		fk := funcKey(a.producer)
		nBack, nBreak, nRet := 0, 0, 0
		resultOf := func(evs []*Term, i int) *Term {
			if i+1 < len(evs) && evs[i+1].Op == "evret" {
				return evs[i+1].Args[0]
			}
			return nil
		}
		keyOf := func(entry *Term) *Term {
			return mk("pcall", keyName, nil, mk("fieldof", a.recField, nil, entry))
		}
		for _, s := range c.Samples {
			// first removed entry
			var first *Term
			var lastTop *Term
			for i, e := range s.Events {
				if e.Op == "ev" && e.Aux == rem && first == nil {
					first = resultOf(s.Events, i)
				}
				if e.Op == "ev" && e.Aux == top {
					lastTop = resultOf(s.Events, i)
				}
			}
			if first == nil {
				continue
			}
			w := witnessOf(p, s.St.trace)
			switch s.Kind {
			case "back":
				if lastTop == nil {
					continue
				}
				nBack++
				// an entry was discarded: not allowed when top.key > entry.key
				if ok, cex := implied(s.St, fNot(fAtom(tLt(keyOf(first), keyOf(lastTop))))); !ok {
					r.violate("DT-SHADOW", fk+" / only entries with an equal key are discarded", p.pos(a.producer.Pos()), "an entry with a larger key can be discarded as shadowed: "+cex, w)
				} else {
					r.ok("DT-SHADOW", fk+" / only entries with an equal key are discarded", "discard => not (top.key > entry.key)")
				}
				// the discarded entry's sub-iterator is advanced
				okAdv := false
				// the entry removed in this iteration is the one top() showed
				var lastRem *Term
				for i, e := range s.Events {
					if e.Op == "ev" && e.Aux == rem {
						lastRem = resultOf(s.Events, i)
					}
				}
				for _, e := range s.Events {
					if e.Op == "ev" && e.Aux == adv && e.Args[1].Op == "fieldof" && lastRem != nil && lastRem != first && e.Args[1].Args[0] == lastRem {
						okAdv = true
					}
					if e.Op == "ev" && e.Aux == adv && e.Args[1] == mk("fieldof", a.idxField, e.Args[1].Typ, lastTop) {
						okAdv = true
					}
					if e.Op == "ev" && e.Aux == adv && e.Args[1].Op == "fieldof" && e.Args[1].Args[0] == lastTop {
						okAdv = true
					}
				}
				if !okAdv {
					r.violate("SHADOW-ADVANCE", fk+" / discarded entry's table is advanced", p.pos(a.producer.Pos()), "an entry is discarded from the heap without advancing the sub-iterator it came from", w)
				} else {
					r.ok("SHADOW-ADVANCE", fk+" / discarded entry's table is advanced", "every discard is followed by advancing that table's iterator")
				}
			case "break":
				if lastTop == nil {
					continue
				}
				// only the exit taken right after inspecting the top (not an
				// error return after a discard)
				lastEv := ""
				for _, e := range s.Events {
					if e.Op == "ev" {
						lastEv = e.Aux
					}
				}
				if lastEv != top {
					continue
				}
				nBreak++
				// stop while the heap is not empty: the top must have a different key
				if os.Getenv("RSA_DEBUG") == "6" {
					for _, k := range sortedFactKeys(s.St) {
						v := s.St.facts[k]
						_ = v
						fmt.Fprintf(os.Stderr, "break fact %s = %v\n", k, v)
					}
					fmt.Fprintf(os.Stderr, "first=%s lastTop=%s\n", first.key, lastTop.key)
					for _, l := range witnessOf(p, s.St.trace) {
						fmt.Fprintf(os.Stderr, "   W %s\n", l)
					}
				}
				theory := fNot(fAtom(tLt(keyOf(lastTop), keyOf(first))))
				if ok, cex := implied(s.St, fImplies(theory, fNot(fAtom(tEq(keyOf(lastTop), keyOf(first)))))); !ok {
					r.violate("DT-SHADOW", fk+" / every entry with an equal key is discarded", p.pos(a.producer.Pos()), "the shadow loop can stop although the top of the heap has the same key (an older record of the key would be returned later): "+cex, w)
				} else {
					r.ok("DT-SHADOW", fk+" / every entry with an equal key is discarded", "stop with non-empty heap => top.key != entry.key")
				}
			case "ret":
				if s.Panic || len(s.Vals) < 2 || s.St.truth(tEq(s.Vals[len(s.Vals)-1], tNil)) != 1 || s.Vals[0] == tFalse {
					continue
				}
				nRet++
				cp := hasEvent(s.Events, "method:(record).copyFrom")
				if cp == nil || !(cp.Args[1].Op == "fieldof" && cp.Args[1].Args[0] == first) {
					r.violate("FIRST-WINS", fk+" / the record returned is the first removed entry", p.pos(a.producer.Pos()), "the record handed to the caller is not the first entry removed from the heap (newest table for the smallest key)", w)
				} else {
					r.ok("FIRST-WINS", fk+" / the record returned is the first removed entry", "copyFrom(first removed entry)")
				}
				okAdv := false
				for _, e := range s.Events {
					if e.Op == "ev" && e.Aux == adv && e.Args[1].Op == "fieldof" && e.Args[1].Args[0] == first {
						okAdv = true
					}
				}
				if !okAdv {
					r.violate("SHADOW-ADVANCE", fk+" / returned entry's table is advanced", p.pos(a.producer.Pos()), "the sub-iterator of the returned entry is not advanced", w)
				} else {
					r.ok("SHADOW-ADVANCE", fk+" / returned entry's table is advanced", "advanceSubIter(entry.index) on every successful path")
				}
			}
		}
		r.floor("DT-SHADOW.discard", nBack, 1, "discard iterations of the shadow loop")
		r.floor("DT-SHADOW.stop", nBreak, 1, "stop exits of the shadow loop")
		r.floor("FIRST-WINS", nRet, 1, "successful returns of the entry producer")
	}
	// ---- DT-SUPPRESS in Next
	{
		prod := funcKey(a.producer)
		delName := "method:(record).IsDeletion"
		cfg := &simCfg{Event: map[string]bool{prod: true}, Pure: map[string]bool{delName: true}, NoInlineDefault: true, PreciseExits: true}
		c, _ := runSim(p, a.next, cfg, nil)
		fk := funcKey(a.next)
		recv := mk("param", funcKey(a.next)+"."+a.next.Params[0].Name(), nil)
		nB, nR := 0, 0
		for _, s := range c.Samples {
			var res *Term
			var rec *Term
			for i, e := range s.Events {
				if e.Op == "ev" && e.Aux == prod {
					rec = e.Args[1]
					if i+1 < len(s.Events) {
						res = s.Events[i+1].Args[0]
					}
				}
			}
			if res == nil {
				continue
			}
			okT := res
			if res.Op == "tuple" {
				okT = res.Args[0]
			}
			sup := mk("init", "", nil, mk("field", a.iterT.Obj().Name()+".suppressDeletions", nil, recv))
			// resolve the flag field by type: the bool field of the iterator type
			st := a.iterT.Underlying().(*types.Struct)
			for i := 0; i < st.NumFields(); i++ {
				if b, ok := st.Field(i).Type().Underlying().(*types.Basic); ok && b.Kind() == types.Bool {
					sup = mk("init", "", nil, mk("field", a.iterT.Obj().Name()+"."+fname(st.Field(i)), nil, recv))
				}
			}
			isDel := mk("pcall", delName, nil, rec, memSnap(s.St, rec))
			hide := fAnd(fAtom(okT), fAtom(isDel), fAtom(sup))
			w := witnessOf(p, s.St.trace)
			switch s.Kind {
			case "back":
				nB++
				if ok, _ := implied(s.St, hide); !ok {
					// rotated loop (`for ok && suppress && rec.IsDeletion() { ok, err = next() }`):
					// the test of this iteration is about the previous call's result, which
					// the loop carries in a variable fed only by the producer's ok results
					if okVar := phiCarriesResult(p, s.St, true, map[string]bool{prod: true}, 0, false); okVar != nil && s.St.truth(sup) == 1 {
						delTrue := false
						for _, k := range sortedFactKeys(s.St) {
							t := s.St.fterm[k]
							if s.St.facts[k] && t.Op == "pcall" && t.Aux == delName && len(t.Args) > 0 && t.Args[0] == rec {
								delTrue = true
							}
						}
						if delTrue {
							r.ok("DT-SUPPRESS", fk+" / only suppressed deletions are skipped", "skip => ok and IsDeletion and suppress")
							continue
						}
					}
				}
				if ok, cex := implied(s.St, hide); !ok {
					r.violate("DT-SUPPRESS", fk+" / only suppressed deletions are skipped", p.pos(a.next.Pos()), "a record can be skipped although it is not (a deletion in a view that suppresses deletions): "+cex, w)
				} else {
					r.ok("DT-SUPPRESS", fk+" / only suppressed deletions are skipped", "skip => ok and IsDeletion and suppress")
				}
			case "ret":
				if s.Panic {
					continue
				}
				nR++
				if ok, cex := implied(s.St, fNot(hide)); !ok {
					r.violate("DT-SUPPRESS", fk+" / suppressed deletions are never returned", p.pos(a.next.Pos()), "a deletion record can be returned from a view that suppresses deletions: "+cex, w)
				} else {
					r.ok("DT-SUPPRESS", fk+" / suppressed deletions are never returned", "return => not (ok and IsDeletion and suppress)")
				}
				if res.Op == "tuple" && (s.Vals[0] != res.Args[0] || s.Vals[1] != res.Args[1]) {
					r.violate("DT-SUPPRESS", fk+" / result of the producer is passed on", p.pos(a.next.Pos()), fmt.Sprintf("Next returns (%s, %s) instead of the producer's result", s.Vals[0], s.Vals[1]), w)
				}
			}
		}
		r.floor("DT-SUPPRESS.skip", nB, 1, "skip iterations of Next")
		r.floor("DT-SUPPRESS.return", nR, 1, "returns of Next")
	}
	// ---- ENTRY-INDEX / INDEX-STABLE in init and advance
	for _, fn := range []*ssa.Function{a.initF, a.advance} {
		add := funcKey(a.hAdd)
		nextName := "method:(iterator).Next"
		fk := funcKey(fn)
		var moved []string
		inl := iterHelpers(p, a, fn)
		for _, h := range a.fillHelpers {
			inl[h] = true
		}
		cfg := &simCfg{Event: map[string]bool{add: true, nextName: true}, Opaque: map[string]bool{"newRecord": true}, NoInlineDefault: true, Inline: inl,
			OnStoreHook: func(c *simClient, x *Exec, st *State, fr *Frame, pos token.Pos, addr, val, old *Term) {
				if (addr.Op == "index" && strings.Contains(addr.Args[0].key, a.iterT.Obj().Name()+".") && !val.isNilConst()) ||
					(addr.Op == "field" && strings.HasPrefix(addr.Aux, a.iterT.Obj().Name()+".") && val.Op != "const" && isSliceTyped(a.iterT, addr.Aux)) {
					moved = append(moved, p.pos(pos))
				}
			}}
		c, _ := runSim(p, fn, cfg, nil)
		n := 0
		for _, s := range c.Samples {
			if s.Kind == "done" || s.Kind == "break" {
				continue
			}
			var nx *Term
			for _, e := range s.Events {
				if e.Op == "ev" && e.Aux == nextName {
					nx = e
				}
				if e.Op == "ev" && e.Aux == add && nx != nil {
					n++
					entry := e.Args[1]
					var idx *Term
					if entry.Op == "struct" {
						est := a.entryT.Underlying().(*types.Struct)
						for i := 0; i < est.NumFields(); i++ {
							if fname(est.Field(i)) == a.idxField {
								idx = entry.Args[i]
							}
						}
					}
					sub := nx.Args[0]
					okIdx := idx != nil && sub.Op == "elem" && sub.Args[1] == idx
					if !okIdx {
						r.violate("ENTRY-INDEX", fk+" / heap entry index = position of its table", p.pos(fn.Pos()), fmt.Sprintf("a heap entry filled from sub-iterator %s is tagged with index %v: the newest-table-wins tie-break would compare the wrong tables", sub, idx), witnessOf(p, s.St.trace))
					} else {
						r.ok("ENTRY-INDEX", fk+" / heap entry index = position of its table", "entry.index is the position of the sub-iterator that produced the record")
					}
				}
			}
		}
		// MERGE-NO-DROP: a record a sub-iterator produced is always queued; whether
		// a deletion is shown is decided when records leave the heap (DT-SUPPRESS),
		// never when they enter it
		dropped := false
		nRead := 0
		for _, s := range c.Samples {
			if s.Panic || (s.Kind != "ret" && s.Kind != "back") {
				continue
			}
			cm := termByKey(s.Loop)
			for i, e := range s.Events {
				if e.Op != "ev" || e.Aux != nextName || i+1 >= len(s.Events) || s.Events[i+1].Op != "evret" {
					continue
				}
				if s.Kind == "back" && (cm == nil || !e.Args[len(e.Args)-1].contains(cm)) {
					continue // an earlier iteration's read
				}
				res := s.Events[i+1].Args[0]
				if res.Op != "tuple" || s.St.truth(res.Args[0]) != 1 || s.St.truth(tEq(res.Args[1], tNil)) == 0 {
					continue
				}
				nRead++
				queued := false
				for _, e2 := range s.Events[i+1:] {
					if e2.Op == "ev" && e2.Aux == add {
						queued = true
					}
				}
				if !queued && !(s.Kind == "ret" && len(s.Vals) > 0 && s.St.truth(tEq(s.Vals[len(s.Vals)-1], tNil)) == 0) {
					dropped = true
					r.violate("MERGE-NO-DROP", fk+" / every record read from a table is queued", p.pos(fn.Pos()), "a record that a sub-iterator returned is not put on the heap on some path: the merged view (the raw one used by compaction included) loses records of that table, e.g. the deletions of the oldest table of a compacted segment", witnessOf(p, s.St.trace))
				}
			}
		}
		if !dropped {
			r.ok("MERGE-NO-DROP", fk+" / every record read from a table is queued", fmt.Sprintf("%d successful reads, each followed by a heap insertion", nRead))
		}
		r.floor("ENTRY-INDEX."+fn.Name(), n, 1, "heap insertions in "+fk)
		if len(moved) > 0 {
			r.violate("INDEX-STABLE", fk+" / sub-iterators keep their slot", moved[0], "a sub-iterator slot is overwritten with a non-nil value or the slot array is replaced: slot position is the recency rank used by the heap order", nil)
		} else {
			r.ok("INDEX-STABLE", fk+" / sub-iterators keep their slot", "slots are only ever set to nil")
		}
	}
	checkIndexStable(p, r, a)
	checkHeapSift(p, r, a)
	// ---- SEEK-ALL / SEEK-MERGED in (*Merged).seekRecord
	{
		seekName := "method:(Table).seekRecord"
		fk := funcKey(a.seekRec)
		inl := map[string]bool{}
		for k := range directCallees(a.seekRec) {
			g := p.Func(k)
			if g == nil || g == a.seekRec {
				continue
			}
			if g.Signature.Recv() != nil && types.Identical(g.Signature.Recv().Type(), a.seekRec.Signature.Recv().Type()) {
				inl[k] = true // helper methods of the view (e.g. the per-table seek loop on its own)
			}
			// constructor helpers: plain functions handing back a new merged iterator
			if g.Signature.Recv() == nil {
				for i := 0; i < g.Signature.Results().Len(); i++ {
					if pt, ok := g.Signature.Results().At(i).Type().(*types.Pointer); ok && types.Identical(pt.Elem(), a.iterT) {
						inl[k] = true
					}
				}
			}
		}
		cfg := &simCfg{Event: map[string]bool{seekName: true, funcKey(a.initF): true}, Keep: map[string]bool{funcKey(a.initF): true}, Pure: map[string]bool{"method:(record).typ": true, "method:(Table).Name": true}, NoInlineDefault: true, Inline: inl}
		c, _ := runSim(p, a.seekRec, cfg, nil)
		m := mk("param", fk+"."+a.seekRec.Params[0].Name(), nil)
		rec := mk("param", fk+"."+a.seekRec.Params[1].Name(), nil)
		n := 0
		for _, s := range c.Samples {
			if s.Kind != "ret" || s.Panic || s.St.truth(tEq(s.Vals[1], tNil)) == 0 {
				continue // definite error return
			}
			n++
			w := witnessOf(p, s.St.trace)
			it := s.Vals[0]
			if it.Op != "alloc" {
				r.violate("SEEK-MERGED", fk+" / a merged iterator is returned", p.pos(a.seekRec.Pos()), "seeking in the merged view can return something other than a fresh merged iterator (deletion suppression and shadowing would be bypassed): "+it.String(), w)
				continue
			}
			ist := a.iterT.Underlying().(*types.Struct)
			okAll := true
			for i := 0; i < ist.NumFields(); i++ {
				f := ist.Field(i)
				addr := mk("field", a.iterT.Obj().Name()+"."+fname(f), nil, it)
				cl, has := s.St.mem[addr.key]
				if b, ok := f.Type().Underlying().(*types.Basic); ok && b.Kind() == types.Bool {
					// the view's flag: the boolean field of the Merged type
					viewFlag := fname(f)
					if mst, ok := p.namedType("Merged").Underlying().(*types.Struct); ok {
						for j := 0; j < mst.NumFields(); j++ {
							if bb, ok := mst.Field(j).Type().Underlying().(*types.Basic); ok && bb.Kind() == types.Bool {
								viewFlag = fname(mst.Field(j))
							}
						}
					}
					want := mk("init", "", nil, mk("field", "Merged."+viewFlag, nil, m))
					if !has || cl.val != want {
						got := "<unset>"
						if has {
							got = cl.val.String()
						}
						r.violate("SEEK-MERGED", fk+" / suppression flag is copied from the view", p.pos(a.seekRec.Pos()), "the iterator's deletion-suppression flag is "+got+", not the view's flag "+want.String(), w)
						okAll = false
					}
				}
				if sl, ok := f.Type().(*types.Slice); ok {
					if _, isI := sl.Elem().Underlying().(*types.Interface); isI && has {
						// every member is the result of seeking the table at that position
						for _, mem := range listMembers(cl.val) {
							good := false
							src := mem
							if src.Op == "extract" {
								src = src.Args[0]
							}
							if src.Op == "call" && src.Aux == seekName && len(src.Args) >= 3 {
								recvT := src.Args[1]
								if recvT.Op == "elem" && recvT.Args[0] == mk("init", "", nil, mk("field", "Merged.stack", nil, m)) && src.Args[2] == rec {
									good = true
								}
							}
							if !good {
								r.violate("SEEK-ALL", fk+" / every table is sought", p.pos(a.seekRec.Pos()), "a slot of the merged iterator is not the result of seeking the table at that position with the requested key ("+mem.String()+"): records of that table would be missing from the view", w)
								okAll = false
							}
						}
					}
				}
			}
			if okAll {
				r.ok("SEEK-MERGED", fk+" / a merged iterator is returned", "fresh merged iterator with the view's suppression flag")
				r.ok("SEEK-ALL", fk+" / every table is sought", "slot i = stack[i].seekRecord(rec)")
			}
		}
		r.floor("SEEK-MERGED", n, 1, "successful returns of the merged seek")
	}
	// ---- DT-MERGE-PRE in NewMerged
	{
		fk := funcKey(a.newMerged)
		maxN, minN, hashN := "method:(Table).MaxUpdateIndex", "method:(Table).MinUpdateIndex", "method:(Table).HashID"
		cfg := &simCfg{Pure: map[string]bool{maxN: true, minN: true, hashN: true}, NoInlineDefault: true}
		c, _ := runSim(p, a.newMerged, cfg, nil)
		hashP := mk("param", fk+"."+a.newMerged.Params[1].Name(), nil)
		n := 0
		// the validation loop(s): loops with at least one iteration that examines a
		// table (other loops over the tables, e.g. collecting names, decide nothing)
		examining := map[string]bool{}
		for _, s := range c.Samples {
			if s.Kind != "back" {
				continue
			}
			cm := termByKey(s.Loop)
			for _, k := range sortedFactKeys(s.St) {
				s.St.fterm[k].walk(func(u *Term) {
					if u.Op == "pcall" && cm != nil && u.Args[0].contains(cm) && (u.Aux == maxN || u.Aux == minN || u.Aux == hashN) {
						examining[s.Loop] = true
					}
				})
			}
		}
		for _, s := range c.Samples {
			if s.Kind != "back" || !examining[s.Loop] {
				continue
			}
			n++
			// the loop-carried "previous table" and the current one: operands of
			// the pure calls that belong to this iteration
			var lastT, curT *Term
			var maxCall, minCall, hashCall *Term
			curMark := termByKey(s.Loop)
			var fkeys []string
			for _, k := range sortedFactKeys(s.St) {
				fkeys = append(fkeys, k)
			}
			sort.Strings(fkeys)
			for _, k := range fkeys {
				t := s.St.fterm[k]
				t.walk(func(u *Term) {
					if u.Op != "pcall" || curMark == nil || !u.Args[0].contains(curMark) {
						return
					}
					if u.Aux == maxN {
						lastT, maxCall = u.Args[0], u
					}
					if u.Aux == minN {
						curT, minCall = u.Args[0], u
					}
					if u.Aux == hashN {
						curT, hashCall = u.Args[0], u
					}
				})
			}
			w := witnessOf(p, s.St.trace)
			if curT == nil {
				r.violate("DT-MERGE-PRE", fk+" / ordering and hash precondition", p.pos(a.newMerged.Pos()), "a table is accepted into the merged view without its update-index range or hash id being examined", w)
				continue
			}
			if hashCall == nil {
				r.violate("DT-MERGE-PRE", fk+" / ordering and hash precondition", p.pos(a.newMerged.Pos()), "a table is accepted into the merged view without its hash id being compared with the view's", w)
				continue
			}
			spec := fAtom(tEq(hashCall, hashP))
			if lastT != nil && minCall != nil {
				spec = fAnd(spec, fOr(fAtom(tEq(lastT, tNil)), fAtom(tLt(maxCall, minCall))))
			} else {
				// no comparison with the previous table on this path: must be the first table
				spec = fAnd(spec, &Formula{Op: "false"})
				for _, k := range sortedFactKeys(s.St) {
					v := s.St.facts[k]
					_ = v
					t := s.St.fterm[k]
					if t.Op == "eq" && v && (t.Args[0].isNilConst() || t.Args[1].isNilConst()) {
						spec = fAtom(tEq(hashCall, hashP))
					}
					// or: the position of this table is known to be 0 (`i > 0 && ...` is false)
					if curMark != nil && t.contains(curMark) {
						zero := tConst("0", nil)
						if (t.Op == "lt" && v && t.Args[1] == zero && t.Args[0].containsOp("loopvar")) ||
							(t.Op == "lt" && !v && t.Args[0] == zero && t.Args[1].containsOp("loopvar")) ||
							(t.Op == "eq" && v && (t.Args[0] == zero || t.Args[1] == zero) && t.containsOp("loopvar")) {
							spec = fAtom(tEq(hashCall, hashP))
						}
					}
				}
			}
			if ok, cex := implied(s.St, spec); !ok {
				r.violate("DT-MERGE-PRE", fk+" / ordering and hash precondition", p.pos(a.newMerged.Pos()), "a table can be accepted although its update-index range does not lie strictly above the previous table's or its hash id differs: "+cex, w)
			} else {
				r.ok("DT-MERGE-PRE", fk+" / ordering and hash precondition", "accept => (first table or max(prev) < min(t)) and hash(t) = hash")
			}
		}
		r.floor("DT-MERGE-PRE", n, 1, "accepting iterations of NewMerged")
	}
}

// checkIndexStable: whole-package effects rule.  The slot array of the merged
// iterator (its slice-of-iterators field) is set only when the iterator is
// constructed, and a slot is only ever overwritten with nil.
func checkIndexStable(p *Program, r *Report, a *mergedAnchors) {
	ist := a.iterT.Underlying().(*types.Struct)
	slot := -1
	for i := 0; i < ist.NumFields(); i++ {
		if sl, ok := ist.Field(i).Type().(*types.Slice); ok {
			if _, isI := sl.Elem().Underlying().(*types.Interface); isI {
				slot = i
			}
		}
	}
	if slot < 0 {
		fatalf("unresolved anchor: slot array of %s", a.iterT.Obj().Name())
	}
	isSlotField := func(v ssa.Value) (*ssa.FieldAddr, bool) {
		fa, ok := v.(*ssa.FieldAddr)
		if !ok || fa.Field != slot {
			return nil, false
		}
		pt, ok := fa.X.Type().Underlying().(*types.Pointer)
		return fa, ok && types.Identical(pt.Elem(), a.iterT)
	}
	n := 0
	for _, f := range p.Funcs {
		for _, b := range f.Blocks {
			for _, ins := range b.Instrs {
				st, ok := ins.(*ssa.Store)
				if !ok {
					continue
				}
				key := funcKey(f) + " / sub-iterator slots keep their position"
				if fa, ok := isSlotField(st.Addr); ok {
					n++
					if _, fresh := fa.X.(*ssa.Alloc); !fresh {
						r.violate("INDEX-STABLE", key, p.pos(st.Pos()), "the slot array of an existing merged iterator is replaced (slots may move: slot position is the recency rank used by the heap order)", nil)
					} else {
						r.ok("INDEX-STABLE", key, "slot array set at construction only")
					}
				}
				if ia, ok := st.Addr.(*ssa.IndexAddr); ok {
					if ld, ok := ia.X.(*ssa.UnOp); ok {
						if fa, ok := isSlotField(ld.X); ok {
							n++
							// slots of an iterator that this function is still constructing
							// (a fresh object, before any of its methods is called) may be filled
							fresh := false
							if al, isAlloc := fa.X.(*ssa.Alloc); isAlloc {
								fresh = true
								for _, ref := range *al.Referrers() {
									ci, isCall := ref.(ssa.CallInstruction)
									if !isCall {
										continue
									}
									if ci.Block() == st.Block() {
										// a call in the same block: before the store?
										for _, i2 := range st.Block().Instrs {
											if i2 == ssa.Instruction(st) {
												break
											}
											if i2 == ref {
												fresh = false
											}
										}
									} else if ci.Block().Dominates(st.Block()) {
										fresh = false
									}
								}
							}
							if c, isC := st.Val.(*ssa.Const); (!isC || c.Value != nil) && !fresh {
								r.violate("INDEX-STABLE", key, p.pos(st.Pos()), "a sub-iterator slot is overwritten with a non-nil value: iterators change slots, so the heap's table-index tie-break no longer means 'newest table'", nil)
							} else {
								r.ok("INDEX-STABLE", key, "slots are only ever set to nil (or filled while the iterator is under construction)")
							}
						}
					}
				}
			}
		}
	}
	r.floor("INDEX-STABLE", n, 2, "stores to the slot array or its elements")
}

func isSliceTyped(t *types.Named, aux string) bool {
	st := t.Underlying().(*types.Struct)
	for i := 0; i < st.NumFields(); i++ {
		if t.Obj().Name()+"."+fname(st.Field(i)) == aux {
			_, ok := st.Field(i).Type().(*types.Slice)
			return ok
		}
	}
	return false
}

func init() {
	checks["C03"] = func(p *Program, r *Report) {
		checkMergedView(p, r)
		checkFsSubset(p, r, []string{"MERGED-FRESH"}, map[string]int{"MERGED-FRESH": 5})
		a := analyseCompaction(p)
		if len(a.rawViol) > 0 {
			r.violate("COMPACT-RAW", funcKey(a.fn)+" / compaction reads the raw merged view", a.rawViol[0], "the merged view used for compaction has deletion suppression switched on", nil)
		} else {
			r.ok("COMPACT-RAW", funcKey(a.fn)+" / compaction reads the raw merged view", "suppressDeletions is never set on the compaction's merged view")
		}
		// iterators of one view do not share mutable state through the view
		copyStateless(p, r, "VIEW-STATELESS", "iterators obtained from one merged view can influence each other")
		// every table of the view is asked for the same key
		copyRules(p, r, checkSeekKeyIntact, "SEEK-KEY-INTACT")
		r.Engines = []string{"pathsim", "dtable", "effects"}
		r.Explanation = "Decision tables extracted by path-sensitive simulation and compared, for every valuation of their comparison atoms consistent with the order theory, with the specification: heap order (key ascending, table index descending); shadow loop (discard => not top.key > entry.key; stop with non-empty heap => top.key != entry.key; the record returned is the first removed entry; every removed entry's table is advanced); Next skips exactly suppressed deletions; NewMerged accepts a table only above the previous table's range and with the view's hash id. Dataflow: heap entry index = slot of the sub-iterator that produced the record, slots are never moved, the merged seek returns a fresh merged iterator whose slot i is stack[i].seekRecord(key) and whose suppression flag is the view's; the stack's view suppresses deletions and the compaction's does not."
		r.NotDecided = []string{"heap sift index arithmetic (that the array is a heap)", "correctness of each table's own iterator (C02)"}
		r.Assumptions = []string{"record.key() and IsDeletion() are pure (effects engine)", "anchors resolved by type structure: entry = struct{interface; int}, heap = struct{[]entry}, iterator = struct with a heap field"}
	}
}

// HEAP-SIFT: the sift loops of the merged iterator's priority queue keep the
// heap order.  The order function is modelled as a strict order on an
// uninterpreted rank of the entries (justified by DT-PQ, which decides that
// it is the lexicographic order on key and table index); every loop of a heap
// method that stores into heap elements is then checked per generic iteration:
//
//	sift-down (candidates i, 2i+1, 2i+2): at a swap or at the exit, the element
//	  moved to / left at position i is not greater than any in-range candidate,
//	  the swap exchanges positions i and m and the walk continues at m;
//	sift-up (candidates i, (i-1)/2): the loop stops only when the child is not
//	  smaller than its parent, otherwise the two are exchanged and the walk
//	  continues at the parent.
func checkHeapSift(p *Program, r *Report, a *mergedAnchors) {
	n := 0
	for _, f := range p.Funcs {
		recv := f.Signature.Recv()
		if recv == nil || f.Parent() != nil {
			continue
		}
		rt := recv.Type()
		if pt, ok := rt.(*types.Pointer); ok {
			rt = pt.Elem()
		}
		if !types.Identical(rt, a.heapT) {
			continue
		}
		// stores into heap elements inside a loop?
		hasElemStore := false
		for _, b := range f.Blocks {
			for _, ins := range b.Instrs {
				if st, ok := ins.(*ssa.Store); ok {
					if ia, ok := st.Addr.(*ssa.IndexAddr); ok {
						if sl, ok := ia.X.Type().Underlying().(*types.Slice); ok && types.Identical(sl.Elem(), a.entryT) {
							hasElemStore = true
						}
					}
				}
			}
		}
		if !hasElemStore {
			continue
		}
		fk := funcKey(f)
		lessKey := funcKey(a.less)
		type stInfo struct{ addr, val *Term }
		cfg := &simCfg{
			Model: func(c *simClient, x *Exec, st *State, fr *Frame, site ssa.CallInstruction, name string, callee *ssa.Function, fnTerm *Term, args []*Term) (bool, []CallOut) {
				if name == lessKey {
					return true, []CallOut{{St: st, Val: tLt(mk("rank", "", types.Typ[types.Int], args[0]), mk("rank", "", types.Typ[types.Int], args[1]))}}
				}
				if name == "builtin:append" {
					// the grown heap is an opaque slice: the sift rules speak about
					// positions, not about which element was appended
					var typ types.Type
					if v := site.Value(); v != nil {
						typ = v.Type()
					}
					return true, []CallOut{{St: st, Val: mk("grown", fr.ctx+"/"+siteID(fr, site), typ, args[0])}}
				}
				return false, nil
			},
			OnStoreHook: func(c *simClient, x *Exec, st *State, fr *Frame, pos token.Pos, addr, val, old *Term) {
				if addr.Op == "index" {
					g := c.g(st)
					g.events = append(g.events, mk("ev", "elemstore", nil, addr, val))
				}
			},
		}
		c, _ := runSim(p, f, cfg, nil)
		n++
		nIter, nExit := 0, 0
		bad := map[string]string{}
		var badW []string
		keyOrder := fk + " / the element kept at a position is a minimum of the candidates"
		keySwap := fk + " / a sift step exchanges the position with the chosen candidate"
		two, one := tConst("2", nil), tConst("1", nil)
		for _, s := range c.Samples {
			if s.Panic || (s.Kind != "back" && s.Kind != "break") {
				continue
			}
			cm := termByKey(s.Loop)
			if cm == nil {
				continue
			}
			// rank atoms and index terms of this iteration
			elems := map[string]*Term{} // index key -> elem term
			var slice *Term
			var iVar *Term
			for _, k := range sortedFactKeys(s.St) {
				s.St.fterm[k].walk(func(u *Term) {
					if u.Op == "rank" && u.Args[0].Op == "elem" && u.Args[0].contains(cm) {
						e := u.Args[0]
						elems[e.Args[1].key] = e
						slice = e.Args[0]
						if e.Args[1].Op == "loopvar" {
							iVar = e.Args[1]
						}
					}
				})
			}
			if iVar == nil || slice == nil {
				continue
			}
			rank := func(idx *Term) *Term {
				return mk("rank", "", types.Typ[types.Int], mk("elem", "", elems[iVar.key].Typ, slice, idx))
			}
			inRange := func(idx *Term) *Formula {
				// the bound the code itself compared the position with (len(heap), or
				// a local holding it), if it did; otherwise the length of the slice
				for _, k := range sortedFactKeys(s.St) {
					t := s.St.fterm[k]
					if t.Op == "lt" && t.Args[0] == idx && !t.Args[1].containsOp("rank") && t.Args[1].Op != "const" {
						return fAtom(t)
					}
				}
				return fAtom(tLt(idx, mk("len", "", types.Typ[types.Int], slice)))
			}
			l := mk("bin", "+", iVar.Typ, mk("bin", "*", iVar.Typ, two, iVar), one)
			rr := mk("bin", "+", iVar.Typ, mk("bin", "*", iVar.Typ, two, iVar), two)
			par := mk("bin", "/", iVar.Typ, mk("bin", "-", iVar.Typ, iVar, one), two)
			// 2i+1 = i and 2i+2 = i have no solution for a position i >= 0: paths
			// that took such a branch are infeasible
			if s.St.truth(tEq(l, iVar)) == 1 || s.St.truth(tEq(rr, iVar)) == 1 {
				continue
			}
			_, hasL := elems[l.key]
			_, hasR := elems[rr.key]
			_, hasP := elems[par.key]
			// the stores of this iteration
			var stores [][2]*Term
			for _, e := range s.Events {
				if e.Op == "ev" && e.Aux == "elemstore" && e.Args[0].contains(cm) {
					stores = append(stores, [2]*Term{e.Args[0].Args[1], e.Args[1]})
				}
			}
			if os.Getenv("RSA_DEBUG") == "17" {
				var ks []string
				for k := range elems {
					ks = append(ks, k)
				}
				sort.Strings(ks)
				fmt.Fprintf(os.Stderr, "SIFT %s %s i=%s hasL=%v hasR=%v hasP=%v stores=%d elems=%v\n", fk, s.Kind, iVar.key, hasL, hasR, hasP, len(stores), ks)
				if !hasP && !hasL && !hasR && s.Kind == "break" {
					for _, k := range sortedFactKeys(s.St) {
						if strings.Contains(k, "rank") {
							fmt.Fprintf(os.Stderr, "SIFTFACT %s = %v\n", k, s.St.facts[k])
						}
					}
				}
			}
			w := witnessOf(p, s.St.trace)
			notLess := func(a, b *Term) *Formula { return fNot(fAtom(tLt(rank(a), rank(b)))) }
			up := hasP && !hasL && !hasR
			for _, st := range stores {
				if st[0] == par {
					up = true
				}
			}
			switch {
			case up:
				// sift-up
				if s.Kind == "break" && len(stores) == 0 {
					nExit++
					if ok, cex := implied(s.St, notLess(iVar, par)); !ok {
						bad[keyOrder] = "the upward walk stops although the element can be smaller than its parent: " + cex
						badW = w
					}
				}
				if s.Kind == "back" {
					nIter++
					if !(len(stores) == 2 && swapOf(stores, slice, iVar, par)) {
						bad[keySwap] = "an upward step does not exchange the element with its parent"
						badW = w
					}
				}
			default:
				// sift-down: chosen position m
				m := iVar
				if s.Kind == "back" {
					nIter++
					if len(stores) != 2 {
						bad[keySwap] = fmt.Sprintf("a downward step performs %d element stores instead of an exchange", len(stores))
						badW = w
						continue
					}
					for _, st := range stores {
						if st[0] != iVar {
							m = st[0]
						}
					}
					if !swapOf(stores, slice, iVar, m) || (m != l && m != rr) {
						bad[keySwap] = "a downward step does not exchange position i with one of its children 2i+1, 2i+2 (exchanged with " + m.String() + ")"
						badW = w
						continue
					}
				} else {
					if len(stores) != 0 {
						continue
					}
					nExit++
				}
				var conj []*Formula
				for _, c := range []*Term{iVar, l, rr} {
					if c == m {
						continue
					}
					if c == iVar {
						conj = append(conj, notLess(c, m))
					} else {
						conj = append(conj, fOr(fNot(inRange(c)), notLess(c, m)))
					}
				}
				// arithmetic truth the order theory does not know: 2i+2 < n implies 2i+1 < n
				arith := fAnd(inRange(rr), fNot(inRange(l)))
				if ok, cex := implied(s.St, fOr(arith, fAnd(conj...))); !ok {
					if os.Getenv("RSA_DEBUG") == "18" {
						fmt.Fprintf(os.Stderr, "SIFTBAD %s %s stores=%d\n", fk, s.Kind, len(stores))
						for _, k := range sortedFactKeys(s.St) {
							fmt.Fprintf(os.Stderr, "   %s = %v\n", k, s.St.facts[k])
						}
					}
					what := "kept at"
					if s.Kind == "back" {
						what = "moved up to"
					}
					bad[keyOrder] = "the element " + what + " position i can be greater than another candidate among i, 2i+1, 2i+2 that is inside the heap: " + cex
					badW = w
				}
			}
		}
		for _, k := range []string{keyOrder, keySwap} {
			if why, isBad := bad[k]; isBad {
				r.violate("HEAP-SIFT", k, p.pos(f.Pos()), why+" - the heap order breaks, the merged iterator then yields keys out of order and mistakes a smaller key for a shadowed duplicate", badW)
			} else {
				r.ok("HEAP-SIFT", k, fmt.Sprintf("%d sift steps and %d stopping points examined", nIter, nExit))
			}
		}
		r.floor("HEAP-SIFT."+f.Name(), nIter+nExit, 2, "sift steps and stopping points of "+fk)
	}
	r.floor("HEAP-SIFT", n, 2, "heap methods with a sift loop")
}

// swapOf: the two stores exchange the elements at positions a and b.
func swapOf(stores [][2]*Term, slice, a, b *Term) bool {
	if len(stores) != 2 {
		return false
	}
	ea, eb := mk("elem", "", nil, slice, a), mk("elem", "", nil, slice, b)
	ok := 0
	for _, st := range stores {
		if st[0] == a && st[1].key == eb.key {
			ok++
		}
		if st[0] == b && st[1].key == ea.key {
			ok++
		}
	}
	return ok == 2
}

// iterHelpers: methods of the merged iterator called directly by f that are
// not themselves anchors (producer, advance, init, Next) nor heap methods.
func iterHelpers(p *Program, a *mergedAnchors, f *ssa.Function) map[string]bool {
	res := map[string]bool{}
	for k := range directCallees(f) {
		g := p.Func(k)
		if g == nil || g == f || !recvIsT(g, a.iterT) {
			continue
		}
		if g == a.producer || g == a.advance || g == a.initF || g == a.next {
			continue
		}
		res[k] = true
	}
	return res
}

func recvIsT(f *ssa.Function, t *types.Named) bool {
	r := f.Signature.Recv()
	if r == nil {
		return false
	}
	rt := r.Type()
	if pt, ok := rt.(*types.Pointer); ok {
		rt = pt.Elem()
	}
	return types.Identical(rt, t)
}
