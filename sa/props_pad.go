package main

import (
	"fmt"
	"go/token"
	"go/types"
	"os"
	"sort"
	"strings"

	"golang.org/x/tools/go/ssa"
)

// OUT-ACCOUNT: the table writer learns where the next block starts from the
// byte counts its output sink reports (Writer.next += n).  A block is at its
// declared position - and the reader's BlockSize stride, the index positions
// and the footer's section offsets point at block starts - only if every count
// the sink reports equals the bytes it physically wrote plus the padding it
// still owes:
//
//	file length + pending padding  ==  sum of the reported counts.
//
// The sink is found structurally: the in-package method that invokes
// io.Writer.Write on a writer loaded from one of its receiver's fields and
// also keeps an int field (the pending padding).  On every simulated path of
// that method the rule demands
//
//	(a) a padding write happens exactly when the pending padding P is > 0, its
//	    slice has length exactly P (both inequalities proved from the path's
//	    facts) and its bytes are zero: a fresh make that is never stored into,
//	    or a slice of a package-level array nothing stores into;
//	(b) the data write passes the caller's slice unchanged;
//	(c) the count returned is the data write's count plus the new padding and
//	    the pending-padding field is left at the new padding;
//	(d) a path without a data write returns a non-nil error.
//
// Decides the structural necessary condition only: that the caller advances
// its offset by the reported count is INDEX-OFFSET / DT-WRITER-IDX.
func checkPadAccount(p *Program, r *Report) {
	n := 0
	for _, fn := range p.Funcs {
		if fn.Signature.Recv() == nil || fn.Parent() != nil {
			continue
		}
		sites := callsDirect(fn, "method:(io.Writer).Write")
		if len(sites) == 0 {
			continue
		}
		recvT := fn.Signature.Recv().Type()
		pt, ok := recvT.Underlying().(*types.Pointer)
		if !ok {
			continue
		}
		stt, ok := pt.Elem().Underlying().(*types.Struct)
		if !ok {
			continue
		}
		padField := ""
		for i := 0; i < stt.NumFields(); i++ {
			if b, ok := stt.Field(i).Type().Underlying().(*types.Basic); ok && b.Kind() == types.Int {
				if padField != "" {
					padField = "?"
				} else {
					padField = fieldAux(pt.Elem(), i)
				}
			}
		}
		fromField := false
		for _, s := range sites {
			if _, ok := s.Common().Value.(*ssa.UnOp); ok {
				fromField = true
			}
		}
		if !fromField || padField == "" || padField == "?" || fn.Signature.Results().Len() != 2 || fn.Signature.Params().Len() != 2 {
			continue
		}
		n++
		checkPadSink(p, r, fn, padField)
	}
	r.floor("OUT-ACCOUNT", n, 1, "padding output sinks")
}

func checkPadSink(p *Program, r *Report, fn *ssa.Function, padField string) {
	name := funcKey(fn)
	bc := &boundsClient{r: r, fn: name, dropped: map[string]map[string]bool{}, arrLen: map[string]int64{},
		oblOK: map[string]bool{}, oblBad: map[string]string{}, oblPos: nil}
	stores := map[string]bool{} // roots of slices stored into
	cfg := &simCfg{
		NoLoopSamples: true,
		UniqueMake:    true,
		Event:         map[string]bool{"method:(io.Writer).Write": true},
		Keep:          map[string]bool{"method:(io.Writer).Write": true},
		Opaque:        map[string]bool{"fmt.Errorf": true},
		OnStoreHook: func(c *simClient, x *Exec, st *State, fr *Frame, pos token.Pos, addr, val, old *Term) {
			if rt := rootOf(addr); rt != nil && (rt.Op == "madeslice" || rt.Op == "global") {
				stores[rt.key] = true
			}
		},
	}
	bc.oblPos = map[string]token.Pos{}
	bc.simClient = simClient{p: p, cfg: cfg}
	x := newExec(p, bc)
	x.UniqueMake = true
	st := newState(&simGhost{flags: map[string]*Term{}})
	var args []*Term
	for _, pa := range fn.Params {
		args = append(args, mk("param", funcKey(fn)+"."+pa.Name(), pa.Type()))
	}
	w, data, newPad := args[0], args[1], args[2]
	padAddr := mk("field", padField, nil, w)
	P := x.load(st, padAddr, types.Typ[types.Int])
	results := x.RunFunc(fn, args, nil, st, "", 0)
	key := func(s string) string { return name + " / " + s }
	bad := map[string]string{}
	seen := map[string]bool{}
	fail := func(k, why string) {
		if _, dup := bad[k]; !dup {
			bad[k] = why
		}
	}
	dbg := os.Getenv("RSA_DEBUG") == "12"
	eq := func(s *State, a, b *linForm) bool {
		return bc.prove(s, a.add(b, -1)) && bc.prove(s, b.add(a, -1))
	}
	paths := 0
	for _, res := range results {
		if res.Panic {
			continue
		}
		paths++
		s := res.St
		var evs, rets []*Term
		for _, e := range bc.g(s).events {
			if e.Op == "ev" {
				evs = append(evs, e)
			} else if e.Op == "evret" {
				rets = append(rets, e)
			}
		}
		pPos := s.truth(tLt(tConst("0", nil), P))
		if dbg {
			fmt.Fprintf(os.Stderr, "PAD path: P>0=%d events=%d vals=%v\n", pPos, len(evs), res.Vals)
			for _, e := range evs {
				fmt.Fprintf(os.Stderr, "   %s len=%s\n", e, bc.linLen(s, e.Args[1]))
			}
		}
		// classify the writes of the path
		dataIdx := -1
		var pads []int
		for i, e := range evs {
			if e.Args[1] == data {
				if dataIdx >= 0 {
					fail(key("the caller's bytes are written once"), "the data slice is written twice on one path")
				}
				dataIdx = i
			} else {
				pads = append(pads, i)
			}
		}
		seen[key("padding write has exactly the pending length")] = true
		seen[key("padding bytes are zero")] = true
		seen[key("the caller's bytes are written unchanged")] = true
		seen[key("reported count = bytes written + new padding")] = true
		seen[key("pending padding is left at the new padding")] = true
		switch {
		case pPos == 1:
			if len(pads) != 1 || (dataIdx >= 0 && pads[0] > dataIdx) {
				fail(key("padding write has exactly the pending length"), fmt.Sprintf("with padding pending, %d padding writes precede the data", len(pads)))
			} else {
				pe := evs[pads[0]]
				l := bc.linLen(s, pe.Args[1])
				if !eq(s, l, bc.lin(s, P)) {
					fail(key("padding write has exactly the pending length"), "the padding slice has length "+l.String()+", not shown equal to the pending padding on the path "+pathFacts(s, P))
				}
				rt := pe.Args[1]
				for rt.Op == "subslice" || rt.Op == "slice" {
					rt = rt.Args[0]
				}
				switch {
				case rt.Op == "madeslice" && !stores[rt.key]:
				case rt.Op == "global" && !stores[rt.key] && globalNeverWritten(p, rt.Aux):
				default:
					fail(key("padding bytes are zero"), "the padding slice is neither a fresh allocation nor a never-written package array ("+rt.Op+")")
				}
			}
		case pPos == 0:
			if len(pads) != 0 {
				fail(key("padding write has exactly the pending length"), "bytes other than the caller's are written although no padding is pending")
			}
		default:
			fail(key("padding write has exactly the pending length"), "the path does not decide whether padding is pending")
		}
		if dataIdx < 0 {
			if dbg {
				for _, k := range sortedFactKeys(s) {
					v := s.facts[k]
					_ = v
					fmt.Fprintf(os.Stderr, "    fact %s = %v\n", k, v)
				}
			}
			if len(res.Vals) < 2 || !nonNilOn(s, res.Vals[1]) {
				fail(key("the caller's bytes are written unchanged"), "a path returns without writing the caller's bytes and without a definite error")
			}
			continue
		}
		// (c)
		var dn *Term
		cnt := 0
		for _, e := range rets {
			if cnt == dataIdx && e.Args[0].Op == "tuple" {
				dn = e.Args[0].Args[0]
			}
			cnt++
		}
		if dn == nil {
			fail(key("reported count = bytes written + new padding"), "the data write's count is not available")
		} else if !eq(s, bc.lin(s, res.Vals[0]), bc.lin(s, dn).add(bc.lin(s, newPad), 1)) {
			fail(key("reported count = bytes written + new padding"), "returned "+bc.lin(s, res.Vals[0]).String())
		}
		after := x.load(s, padAddr, types.Typ[types.Int])
		if !eq(s, bc.lin(s, after), bc.lin(s, newPad)) {
			fail(key("pending padding is left at the new padding"), "left at "+bc.lin(s, after).String())
		}
	}
	if paths == 0 {
		fail(key("reported count = bytes written + new padding"), "no path through the sink")
	}
	var sk []string
	for k := range seen {
		sk = append(sk, k)
	}
	sort.Strings(sk)
	for _, k := range sk {
		if why, isBad := bad[k]; isBad {
			r.violate("OUT-ACCOUNT", k, p.pos(fn.Pos()), "the output sink's byte accounting breaks ("+why+"): the writer's notion of the next block position no longer matches the file, so blocks, index positions and footer offsets are off", nil)
		} else {
			r.ok("OUT-ACCOUNT", k, fmt.Sprintf("holds on all %d paths of the sink", paths))
		}
	}
	for k, why := range bad {
		if !seen[k] {
			r.violate("OUT-ACCOUNT", k, p.pos(fn.Pos()), why, nil)
		}
	}
}

func pathFacts(s *State, about *Term) string {
	var fs []string
	for _, k := range sortedFactKeys(s) {
		v := s.facts[k]
		_ = v
		if strings.Contains(k, about.key) {
			fs = append(fs, fmt.Sprintf("%s=%v", strings.ReplaceAll(k, about.key, "P"), v))
		}
	}
	sort.Strings(fs)
	return "[" + strings.Join(fs, ", ") + "]"
}

func nonNilOn(s *State, t *Term) bool {
	if nonNil(t) {
		return true
	}
	return s.truth(tEq(t, tNil)) == 0
}

// globalNeverWritten: no instruction of the package stores through an address
// derived from the global, and the global's address only flows into slice
// expressions.
func globalNeverWritten(p *Program, name string) bool {
	for _, f := range p.Funcs {
		for _, b := range f.Blocks {
			for _, ins := range b.Instrs {
				for _, op := range ins.Operands(nil) {
					g, ok := (*op).(*ssa.Global)
					if !ok || !strings.HasSuffix(name, g.Name()) {
						continue
					}
					switch ins.(type) {
					case *ssa.Slice:
					default:
						return false
					}
				}
			}
		}
	}
	return true
}

// KEY-BYTEWISE: keys are byte strings (object-index keys are raw hash
// prefixes, log keys end in 8 binary bytes), so nothing in the record codec or
// the block writer/reader may iterate a string by rune: `for i := range s`
// skips UTF-8 continuation bytes and decodes invalid sequences as U+FFFD, which
// mis-measures common prefixes for exactly those keys.  Expected count zero;
// the detector is exercised on a synthetic function on every run.
func runeIterations(f *ssa.Function) []ssa.Instruction {
	var res []ssa.Instruction
	for _, b := range f.Blocks {
		for _, ins := range b.Instrs {
			switch v := ins.(type) {
			case *ssa.Range:
				if bt, ok := v.X.Type().Underlying().(*types.Basic); ok && bt.Info()&types.IsString != 0 {
					res = append(res, ins)
				}
			case *ssa.Convert:
				if sl, ok := v.Type().Underlying().(*types.Slice); ok {
					if eb, ok := sl.Elem().Underlying().(*types.Basic); ok && eb.Kind() == types.Int32 {
						if bt, ok := v.X.Type().Underlying().(*types.Basic); ok && bt.Info()&types.IsString != 0 {
							res = append(res, ins)
						}
					}
				}
			}
		}
	}
	return res
}

func checkKeyBytewise(p *Program, r *Report) {
	// positive control: the detector sees a rune loop
	ctl := runeControl()
	if ctl != 2 {
		fatalf("KEY-BYTEWISE self-test: detector found %d of 2 rune iterations in the control function", ctl)
	}
	cg := buildCallGraph(p)
	var roots []*ssa.Function
	rec := p.namedType("record")
	iface, _ := rec.Underlying().(*types.Interface)
	for _, f := range p.Funcs {
		recv := f.Signature.Recv()
		if recv == nil {
			continue
		}
		rt := recv.Type()
		name := ""
		if pt, ok := rt.(*types.Pointer); ok {
			rt = pt.Elem()
		}
		if n, ok := rt.(*types.Named); ok {
			name = n.Obj().Name()
		}
		if iface != nil && (types.Implements(recv.Type(), iface) || types.Implements(types.NewPointer(rt), iface)) {
			roots = append(roots, f)
		}
		switch name {
		case "blockWriter", "blockIter", "blockReader":
			roots = append(roots, f)
		}
	}
	reach := cg.reachable(roots)
	if len(roots) < 20 {
		r.floor("KEY-BYTEWISE", len(roots), 20, "codec methods (record implementations, block writer/reader/iterator)")
	}
	n := 0
	var fns []*ssa.Function
	for f := range reach {
		fns = append(fns, f)
	}
	sort.Slice(fns, func(i, j int) bool { return funcKey(fns[i]) < funcKey(fns[j]) })
	for _, f := range fns {
		for _, ins := range runeIterations(f) {
			n++
			r.violate("KEY-BYTEWISE", funcKey(f)+" / strings in the codec are handled byte-wise", p.pos(ins.Pos()), "a string is iterated by rune in "+funcKey(f)+", which the key codec reaches: keys hold arbitrary bytes (hash prefixes, binary log suffixes), so positions inside multi-byte sequences are skipped and common prefixes are mis-measured", nil)
		}
	}
	if n == 0 {
		r.ok("KEY-BYTEWISE", "record codec / strings in the codec are handled byte-wise", fmt.Sprintf("no rune iteration or []rune conversion in the %d functions reachable from %d codec methods (detector control: 2 of 2)", len(reach), len(roots)))
	}
}

// ADD-ATOMIC: blockWriter.add either appends the record (true) or leaves the
// block writer exactly as it was (false).  Writer.add reacts to false by
// flushing the block - whose index entry is built from the block writer's last
// key, entry count and length - and retrying in a fresh block, so a field
// written on a rejecting path makes the index entry describe a record that is
// not in the block.  Decided on every path of add (helpers inlined): a path
// returning false performs no store to a field of the receiver.
func checkAddAtomic(p *Program, r *Report) {
	var adds []*ssa.Function
	for _, f := range p.Funcs {
		recv := f.Signature.Recv()
		if recv == nil || f.Parent() != nil || f.Signature.Params().Len() != 1 || f.Signature.Results().Len() != 1 {
			continue
		}
		pt, ok := recv.Type().(*types.Pointer)
		if !ok {
			continue
		}
		n, ok := pt.Elem().(*types.Named)
		if !ok || n.Obj().Name() != "blockWriter" {
			continue
		}
		if bt, ok := f.Signature.Results().At(0).Type().Underlying().(*types.Basic); !ok || bt.Kind() != types.Bool {
			continue
		}
		if _, ok := f.Signature.Params().At(0).Type().Underlying().(*types.Interface); !ok {
			continue
		}
		adds = append(adds, f)
	}
	r.floor("ADD-ATOMIC", len(adds), 1, "block writer methods taking a record and reporting whether it fitted")
	for _, f := range adds {
		fk := funcKey(f)
		w := mk("param", fk+"."+f.Params[0].Name(), f.Params[0].Type())
		cfg := &simCfg{
			NoLoopSamples: true,
			Pure:          map[string]bool{"method:(record).key": true, "method:(record).valType": true, "commonPrefixSize": true},
			Opaque:        map[string]bool{"method:(record).encode": true, "putVarInt": true},
			OnStoreHook: func(c *simClient, x *Exec, st *State, fr *Frame, pos token.Pos, addr, val, old *Term) {
				if addr.Op == "field" && addr.Args[0] == w && val != old {
					c.g(st).flags["bwmod:"+addr.Aux] = mk("pos", p.pos(pos), nil)
				}
			},
		}
		c, _ := runSim(p, f, cfg, nil)
		nFalse, nTrue := 0, 0
		bad := ""
		var wit []string
		for _, s := range c.Samples {
			if s.Kind != "ret" || s.Panic || len(s.Vals) != 1 {
				continue
			}
			switch s.St.truth(s.Vals[0]) {
			case 1:
				nTrue++
			case 0:
				nFalse++
				var mods []string
				for k, v := range c.g(s.St).flags {
					if strings.HasPrefix(k, "bwmod:") {
						mods = append(mods, strings.TrimPrefix(k, "bwmod:")+" at "+v.Aux)
					}
				}
				sort.Strings(mods)
				if len(mods) > 0 && bad == "" {
					bad = strings.Join(mods, ", ")
					wit = witnessOf(p, s.St.trace)
				}
			default:
				bad = "a return value that is neither true nor false on the path"
			}
		}
		key := fk + " / a rejected record leaves the block writer unchanged"
		if bad != "" {
			r.violate("ADD-ATOMIC", key, p.pos(f.Pos()), "a path on which the record is rejected (it does not fit) has already written "+bad+": the block is then flushed with an index entry, entry count or length that describes a record the block does not contain", wit)
		} else {
			r.ok("ADD-ATOMIC", key, fmt.Sprintf("%d rejecting paths store to no receiver field; %d accepting paths", nFalse, nTrue))
		}
		r.floor("ADD-ATOMIC.paths", nFalse, 2, "rejecting paths of "+fk)
	}
}

// ALIGN-FREE: block positions in a table need not be multiples of the block
// size (unaligned tables are legal, and the last block of a section is never
// padded), so nothing on the read path may test an offset for alignment: a
// remainder or bit-mask of a value by a non-constant divisor in code reachable
// from the read API is reported.  Expected count zero; the detector is
// exercised on a synthetic function on every run.
func alignTests(f *ssa.Function) []ssa.Instruction {
	var res []ssa.Instruction
	for _, b := range f.Blocks {
		for _, ins := range b.Instrs {
			if bo, ok := ins.(*ssa.BinOp); ok && bo.Op == token.REM {
				if _, isConst := bo.Y.(*ssa.Const); !isConst {
					res = append(res, ins)
				}
			}
		}
	}
	return res
}

func checkAlignFree(p *Program, r *Report) {
	if n := alignControl(); n != 1 {
		fatalf("ALIGN-FREE self-test: detector found %d of 1 alignment tests in the control function", n)
	}
	cg := buildCallGraph(p)
	reach := cg.reachable(readRoots(p, cg))
	var fns []*ssa.Function
	for f := range reach {
		fns = append(fns, f)
	}
	sort.Slice(fns, func(i, j int) bool { return funcKey(fns[i]) < funcKey(fns[j]) })
	n := 0
	for _, f := range fns {
		for _, ins := range alignTests(f) {
			n++
			r.violate("ALIGN-FREE", funcKey(f)+" / the reader does not assume block alignment", p.pos(ins.Pos()), "an offset is tested modulo a non-constant divisor (the block size) in "+funcKey(f)+", which the read API reaches: positions of blocks in unaligned tables and of unpadded last blocks are arbitrary, so valid tables are rejected or misread", nil)
		}
	}
	if n == 0 {
		r.ok("ALIGN-FREE", "read API / the reader does not assume block alignment", fmt.Sprintf("no remainder by a non-constant divisor in %d reachable functions (detector control: 1 of 1)", len(reach)))
	}
}

// OBJ-LIST-WHOLE: an object-index record written by the writer carries either
// the complete list of ref-block positions collected for the object or no list
// at all (the format's "not listed: scan" convention).  A partial list is
// malformed - readers trust a non-empty list to be complete - so every value
// stored into the position field of an object record on the writer side must
// be the map value collected for the key, unchanged, or nil.
func checkObjListWhole(p *Program, r *Report) {
	objT := p.namedType("objRecord")
	ost, _ := objT.Underlying().(*types.Struct)
	fieldIdx := -1
	for i := 0; ost != nil && i < ost.NumFields(); i++ {
		if sl, ok := ost.Field(i).Type().Underlying().(*types.Slice); ok {
			if b, ok := sl.Elem().Underlying().(*types.Basic); ok && b.Kind() == types.Uint64 {
				fieldIdx = i
			}
		}
	}
	if fieldIdx < 0 {
		fatalf("unresolved anchor: position list field ([]uint64) of objRecord")
	}
	cg := buildCallGraph(p)
	var roots []*ssa.Function
	for _, f := range p.Funcs {
		if recv := f.Signature.Recv(); recv != nil && f.Parent() == nil && f.Object() != nil && f.Object().Exported() {
			if pt, ok := recv.Type().(*types.Pointer); ok {
				if n, ok := pt.Elem().(*types.Named); ok && n.Obj().Name() == "Writer" {
					roots = append(roots, f)
				}
			}
		}
	}
	reach := cg.reachable(roots)
	var fns []*ssa.Function
	for f := range reach {
		fns = append(fns, f)
	}
	sort.Slice(fns, func(i, j int) bool { return funcKey(fns[i]) < funcKey(fns[j]) })
	whole := func(v ssa.Value) bool {
		seen := map[ssa.Value]bool{}
		var ok func(v ssa.Value) bool
		ok = func(v ssa.Value) bool {
			if seen[v] {
				return true
			}
			seen[v] = true
			switch x := v.(type) {
			case *ssa.Const:
				return x.Value == nil
			case *ssa.Lookup:
				_, isMap := x.X.Type().Underlying().(*types.Map)
				return isMap
			case *ssa.Extract:
				if lk, isLk := x.Tuple.(*ssa.Lookup); isLk && x.Index == 0 {
					_, isMap := lk.X.Type().Underlying().(*types.Map)
					return isMap
				}
			case *ssa.Phi:
				for _, e := range x.Edges {
					if !ok(e) {
						return false
					}
				}
				return true
			}
			return false
		}
		return ok(v)
	}
	n := 0
	for _, f := range fns {
		for _, b := range f.Blocks {
			for _, ins := range b.Instrs {
				st, isSt := ins.(*ssa.Store)
				if !isSt {
					continue
				}
				fa, isFA := st.Addr.(*ssa.FieldAddr)
				if !isFA || fa.Field != fieldIdx {
					continue
				}
				pt, isP := fa.X.Type().Underlying().(*types.Pointer)
				if !isP || !types.Identical(pt.Elem(), objT) {
					continue
				}
				n++
				key := funcKey(f) + " / position list written whole or not at all"
				if whole(st.Val) {
					r.ok("OBJ-LIST-WHOLE", key, "the stored list is the collected map value or nil")
				} else {
					r.violate("OBJ-LIST-WHOLE", key, p.pos(st.Pos()), "an object record is given a position list that is neither the complete list collected for the object nor nil: a shortened list is read as complete, so RefsFor loses the refs in the omitted blocks", nil)
				}
			}
		}
	}
	r.floor("OBJ-LIST-WHOLE", n, 2, "stores to the position list of an object record on the writer side")
}

// INDEX-ROOT: the index position recorded for a section (and copied to the
// footer) is where the *last written* index level starts - the root a reader
// must begin with.  Levels are written in a loop, lowest first, so the recorded
// value has to be (re)taken inside that loop; a value taken once before the loop
// names the lowest level as soon as there are two.  Checked on the SSA form: in
// every function that stores a section's IndexOffset, each non-constant source
// of the stored value is defined inside a loop of that function.
func checkIndexRoot(p *Program, r *Report) {
	bs := p.namedType("BlockStats")
	st, _ := bs.Underlying().(*types.Struct)
	idx := -1
	for i := 0; st != nil && i < st.NumFields(); i++ {
		if fname(st.Field(i)) == "IndexOffset" {
			idx = i
		}
	}
	if idx < 0 {
		fatalf("unresolved anchor: BlockStats.IndexOffset")
	}
	n := 0
	loopsOf := map[*ssa.Function]map[*ssa.BasicBlock]bool{}
	loopBlocks := func(f *ssa.Function) map[*ssa.BasicBlock]bool {
		if m, ok := loopsOf[f]; ok {
			return m
		}
		// blocks that lie in some loop of f
		inLoop := map[*ssa.BasicBlock]bool{}
		for _, b := range f.Blocks {
			for _, h := range b.Succs {
				if h.Dominates(b) {
					// natural loop of back edge b -> h
					stack := []*ssa.BasicBlock{b}
					seen := map[*ssa.BasicBlock]bool{h: true, b: true}
					for len(stack) > 0 {
						x := stack[len(stack)-1]
						stack = stack[:len(stack)-1]
						for _, q := range x.Preds {
							if !seen[q] {
								seen[q] = true
								stack = append(stack, q)
							}
						}
					}
					for x := range seen {
						inLoop[x] = true
					}
				}
			}
		}
		loopsOf[f] = inLoop
		return inLoop
	}
	for _, f := range p.Funcs {
		for _, b := range f.Blocks {
			for _, ins := range b.Instrs {
				sto, ok := ins.(*ssa.Store)
				if !ok {
					continue
				}
				fa, ok := sto.Addr.(*ssa.FieldAddr)
				if !ok || fa.Field != idx {
					continue
				}
				pt, ok := fa.X.Type().Underlying().(*types.Pointer)
				if !ok || !types.Identical(pt.Elem(), bs) {
					continue
				}
				n++
				bad := ""
				seen := map[ssa.Value]bool{}
				var walk func(v ssa.Value)
				walk = func(v ssa.Value) {
					if seen[v] {
						return
					}
					seen[v] = true
					switch x := v.(type) {
					case *ssa.Const:
					case *ssa.Phi:
						for _, e := range x.Edges {
							walk(e)
						}
					case *ssa.Convert:
						walk(x.X)
					case *ssa.ChangeType:
						walk(x.X)
					case *ssa.Extract:
						// a result of a helper of this package: the helper's own
						// returned values are followed, in the helper's loops
						if loopBlocks(x.Parent())[x.Block()] {
							return
						}
						if call, ok := x.Tuple.(*ssa.Call); ok {
							if g := call.Call.StaticCallee(); g != nil && g.Pkg == f.Pkg && len(g.Blocks) > 0 {
								for _, gb := range g.Blocks {
									if ret, ok := gb.Instrs[len(gb.Instrs)-1].(*ssa.Return); ok && x.Index < len(ret.Results) {
										walk(ret.Results[x.Index])
									}
								}
								return
							}
						}
						if !loopBlocks(x.Parent())[x.Block()] {
							bad = "a value computed before the level loop (" + p.pos(x.Pos()) + ")"
						}
					case *ssa.Call:
						if loopBlocks(x.Parent())[x.Block()] {
							return
						}
						if g := x.Call.StaticCallee(); g != nil && g.Pkg == f.Pkg && len(g.Blocks) > 0 && g.Signature.Results().Len() == 1 {
							for _, gb := range g.Blocks {
								if ret, ok := gb.Instrs[len(gb.Instrs)-1].(*ssa.Return); ok && len(ret.Results) == 1 {
									walk(ret.Results[0])
								}
							}
							return
						}
						if !loopBlocks(x.Parent())[x.Block()] {
							bad = "a value computed before the level loop (" + p.pos(x.Pos()) + ")"
						}
					case ssa.Instruction:
						if !loopBlocks(x.Parent())[x.Block()] {
							bad = "a value computed before the level loop (" + p.pos(x.Pos()) + ")"
						}
					default:
						bad = "a value that is not computed in the level loop"
					}
				}
				walk(sto.Val)
				key := funcKey(f) + " / the recorded index position is taken per index level"
				if bad != "" {
					r.violate("INDEX-ROOT", key, p.pos(sto.Pos()), "the section's index position is "+bad+": with a multi-level index it names the lowest level instead of the root, so the footer sends readers of the format to the wrong block", nil)
				} else {
					r.ok("INDEX-ROOT", key, "every non-constant source of IndexOffset is defined inside the loop that writes the levels")
				}
			}
		}
	}
	r.floor("INDEX-ROOT", n, 1, "stores to a section's IndexOffset")
}

// LOG-DEFLATED (C14, C15): the format has no stored log block - a block of type
// 'g' is its 4-byte header followed by one zlib stream, and the C reader
// inflates every 'g' block unconditionally.  Decided on the control-flow graph.
// Writer side: in a function that branches on "type == 'g'" and deflates in
// that branch, every return dominated by the branch hands out the deflater's
// buffer (bytes.Buffer.Bytes of the buffer, or the result of a helper all of
// whose returns do).  Reader side: from the branch "type == 'g'" no successful
// return is reachable without passing a call of the inflater.
func checkLogDeflated(p *Program, r *Report) {
	calls := func(f *ssa.Function, names ...string) bool {
		dc := directCallees(f)
		for _, n := range names {
			if dc[n] {
				return true
			}
		}
		return false
	}
	isBufBytes := func(v ssa.Value) bool {
		c, ok := v.(*ssa.Call)
		if !ok {
			return false
		}
		cal := c.Call.StaticCallee()
		return cal != nil && funcKey(cal) == "(*bytes.Buffer).Bytes"
	}
	// helpers that deflate: call the zlib writer and return only buffer bytes
	deflating := map[*ssa.Function]bool{}
	inflating := map[*ssa.Function]bool{}
	for _, f := range p.Funcs {
		if f.Parent() != nil {
			continue
		}
		if calls(f, "compress/zlib.NewReader") {
			inflating[f] = true
		}
		if !calls(f, "compress/zlib.NewWriterLevel", "compress/zlib.NewWriter") || isLogIn(f) {
			continue
		}
		all, n := true, 0
		for _, b := range f.Blocks {
			if ret, ok := b.Instrs[len(b.Instrs)-1].(*ssa.Return); ok && len(ret.Results) > 0 {
				n++
				if !isBufBytes(ret.Results[0]) {
					all = false
				}
			}
		}
		if all && n > 0 {
			deflating[f] = true
		}
	}
	var deflated func(v ssa.Value, seen map[ssa.Value]bool) bool
	deflated = func(v ssa.Value, seen map[ssa.Value]bool) bool {
		if seen[v] {
			return true
		}
		seen[v] = true
		switch x := v.(type) {
		case *ssa.Call:
			if isBufBytes(x) {
				return true
			}
			if cal := x.Call.StaticCallee(); cal != nil && deflating[cal] {
				return true
			}
		case *ssa.Extract:
			if c, ok := x.Tuple.(*ssa.Call); ok && x.Index == 0 {
				if cal := c.Call.StaticCallee(); cal != nil && deflating[cal] {
					return true
				}
			}
		case *ssa.Phi:
			for _, e := range x.Edges {
				if !deflated(e, seen) {
					return false
				}
			}
			return true
		}
		return false
	}
	logBranches := func(f *ssa.Function) []*ssa.BasicBlock {
		var res []*ssa.BasicBlock
		for _, b := range f.Blocks {
			iff, ok := b.Instrs[len(b.Instrs)-1].(*ssa.If)
			if !ok {
				continue
			}
			bo, ok := iff.Cond.(*ssa.BinOp)
			if !ok || (bo.Op != token.EQL && bo.Op != token.NEQ) {
				continue
			}
			for _, v := range []ssa.Value{bo.X, bo.Y} {
				if c, ok := v.(*ssa.Const); ok && c.Value != nil && c.Value.ExactString() == "103" {
					if bo.Op == token.EQL {
						res = append(res, b.Succs[0])
					} else {
						res = append(res, b.Succs[1])
					}
				}
			}
		}
		return res
	}
	nW, nR := 0, 0
	for _, f := range p.Funcs {
		if f.Parent() != nil {
			continue
		}
		fk := funcKey(f)
		for _, tb := range logBranches(f) {
			// which side is this: does the branch region deflate / may it inflate?
			region := map[*ssa.BasicBlock]bool{}
			for _, b := range f.Blocks {
				if tb.Dominates(b) {
					region[b] = true
				}
			}
			deflates, inflates := false, false
			for b := range region {
				for _, ins := range b.Instrs {
					ci, ok := ins.(ssa.CallInstruction)
					if !ok {
						continue
					}
					cal := ci.Common().StaticCallee()
					if cal == nil {
						continue
					}
					k := funcKey(cal)
					if k == "compress/zlib.NewWriterLevel" || k == "compress/zlib.NewWriter" || deflating[cal] {
						deflates = true
					}
					if k == "compress/zlib.NewReader" || inflating[cal] {
						inflates = true
					}
				}
			}
			if deflates {
				for b := range region {
					ret, ok := b.Instrs[len(b.Instrs)-1].(*ssa.Return)
					if !ok || len(ret.Results) == 0 {
						continue
					}
					nW++
					key := fk + " / a finished log block is the deflater's output"
					if !deflated(ret.Results[0], map[ssa.Value]bool{}) {
						r.violate("LOG-DEFLATED", key, p.pos(ret.Pos()), "a block of the log type can be handed out as it was assembled (not as the output of the deflater): the format has no stored log block and the C reader inflates every log block, so such a table cannot be read there", nil)
					} else {
						r.ok("LOG-DEFLATED", key, "type = log => the bytes returned are the deflater's buffer")
					}
				}
			}
			if inflates || (!deflates && calls(f, "compress/zlib.NewReader")) || anyInflatingCallee(f, inflating) && !deflates {
				// from the branch, a successful return must pass the inflater
				nR++
				key := fk + " / a log block is always inflated"
				bad := token.NoPos
				seen := map[*ssa.BasicBlock]bool{}
				var dfs func(b *ssa.BasicBlock)
				dfs = func(b *ssa.BasicBlock) {
					if seen[b] || bad.IsValid() {
						return
					}
					seen[b] = true
					for _, ins := range b.Instrs {
						if ci, ok := ins.(ssa.CallInstruction); ok {
							if cal := ci.Common().StaticCallee(); cal != nil && (funcKey(cal) == "compress/zlib.NewReader" || inflating[cal]) {
								return
							}
						}
					}
					if ret, ok := b.Instrs[len(b.Instrs)-1].(*ssa.Return); ok {
						last := ret.Results[len(ret.Results)-1]
						if c, ok := last.(*ssa.Const); ok && c.IsNil() {
							bad = ret.Pos()
							if !bad.IsValid() {
								bad = f.Pos()
							}
						}
						return
					}
					for _, su := range b.Succs {
						dfs(su)
					}
				}
				dfs(tb)
				if bad.IsValid() {
					r.violate("LOG-DEFLATED", key, p.pos(bad), "a block of the log type can be opened successfully without inflating it: the reader accepts tables that the format (and the C implementation) does not", nil)
				} else {
					r.ok("LOG-DEFLATED", key, "type = log => no successful return is reached without the inflater")
				}
			}
		}
	}
	r.floor("LOG-DEFLATED.writer", nW, 1, "returns of the block finisher on the log-type branch")
	r.floor("LOG-DEFLATED.reader", nR, 1, "log-type branches of the block opener")
}

func anyInflatingCallee(f *ssa.Function, inflating map[*ssa.Function]bool) bool {
	for _, b := range f.Blocks {
		for _, ins := range b.Instrs {
			if ci, ok := ins.(ssa.CallInstruction); ok {
				if cal := ci.Common().StaticCallee(); cal != nil && inflating[cal] {
					return true
				}
			}
		}
	}
	return false
}

// isLogIn: the function compares something with the log block type itself.
func isLogIn(f *ssa.Function) bool {
	for _, b := range f.Blocks {
		for _, ins := range b.Instrs {
			bo, ok := ins.(*ssa.BinOp)
			if !ok {
				continue
			}
			for _, v := range []ssa.Value{bo.X, bo.Y} {
				if c, ok := v.(*ssa.Const); ok && c.Value != nil && c.Value.ExactString() == "103" {
					return true
				}
			}
		}
	}
	return false
}
