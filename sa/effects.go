package main

import (
	"fmt"
	"go/token"
	"go/types"
	"sort"
	"strings"

	"golang.org/x/tools/go/ssa"
)

// effects: who may write what (C19).  Over everything reachable from the
// read API (in-package call graph, interface calls resolved by CHA inside
// the package):
//   E1 no store / map update / in-place append through memory reached via a
//      pointer of a shared type (Reader, Merged, block sources, blockReader)
//      that is not a fresh allocation of the writing function;
//   E2 no write into bytes obtained from a block source or into a slice
//      loaded from a shared object (element store, copy destination, append
//      base), and such bytes flow only to read-only external argument positions;
//   E3 no store to a package-level variable, no math/rand global state;
//   E4 on *os.File only ReadAt/Stat; no (re)opening of files on read paths;
//   E5 shared types have no field of a per-caller type (iterators, records).

type callGraph struct {
	p     *Program
	edges map[*ssa.Function][]*ssa.Function
	impls map[string][]*ssa.Function // interface method id -> in-package implementations
}

func buildCallGraph(p *Program) *callGraph {
	cg := &callGraph{p: p, edges: map[*ssa.Function][]*ssa.Function{}, impls: map[string][]*ssa.Function{}}
	// all named types of the package
	var named []types.Type
	scope := p.Main.Types.Scope()
	for _, n := range scope.Names() {
		if tn, ok := scope.Lookup(n).(*types.TypeName); ok {
			if _, isI := tn.Type().Underlying().(*types.Interface); !isI {
				named = append(named, tn.Type(), types.NewPointer(tn.Type()))
			}
		}
	}
	resolve := func(iface *types.Interface, m *types.Func) []*ssa.Function {
		key := m.FullName()
		if v, ok := cg.impls[key]; ok {
			return v
		}
		var res []*ssa.Function
		for _, t := range named {
			if !types.Implements(t, iface) {
				continue
			}
			ms := p.SSA.MethodSets.MethodSet(t)
			sel := ms.Lookup(m.Pkg(), m.Name())
			if sel == nil {
				continue
			}
			if f := p.SSA.MethodValue(sel); f != nil {
				// wrappers for value receivers: use the underlying declared method
				if f.Synthetic != "" {
					if o, ok := sel.Obj().(*types.Func); ok {
						if df := p.SSA.FuncValue(o); df != nil {
							f = df
						}
					}
				}
				res = append(res, f)
			}
		}
		cg.impls[key] = res
		return res
	}
	for _, f := range p.Funcs {
		seen := map[*ssa.Function]bool{}
		add := func(g *ssa.Function) {
			if g != nil && g.Pkg == p.Pkg && !seen[g] {
				seen[g] = true
				cg.edges[f] = append(cg.edges[f], g)
			}
		}
		for _, b := range f.Blocks {
			for _, ins := range b.Instrs {
				switch ins := ins.(type) {
				case *ssa.MakeClosure:
					if g, _ := p.closureTarget(ins); g != nil {
						add(g)
					}
				case ssa.CallInstruction:
					c := ins.Common()
					if c.IsInvoke() {
						if iface, ok := c.Value.Type().Underlying().(*types.Interface); ok {
							for _, g := range resolve(iface, c.Method) {
								add(g)
							}
						}
					} else if g := c.StaticCallee(); g != nil {
						add(g)
					}
				}
				// functions used as values (handed to a callee or stored) may be called
				for _, op := range ins.Operands(nil) {
					if g, ok := (*op).(*ssa.Function); ok && *op != nil {
						if ci, isCall := ins.(ssa.CallInstruction); isCall && ci.Common().Value == ssa.Value(g) {
							continue
						}
						add(g)
					}
				}
			}
		}
	}
	return cg
}

func (cg *callGraph) reachable(roots []*ssa.Function) map[*ssa.Function]bool {
	seen := map[*ssa.Function]bool{}
	var stack []*ssa.Function
	for _, r := range roots {
		if r != nil && !seen[r] {
			seen[r] = true
			stack = append(stack, r)
		}
	}
	for len(stack) > 0 {
		f := stack[len(stack)-1]
		stack = stack[:len(stack)-1]
		for _, g := range cg.edges[f] {
			if !seen[g] {
				seen[g] = true
				stack = append(stack, g)
			}
		}
	}
	return seen
}

// readRoots: the read API.  Exported methods of Reader, Merged and Iterator
// other than Close, the package-level read helpers, and the methods of every
// in-package BlockSource implementation other than Close.
func readRoots(p *Program, cg *callGraph) []*ssa.Function {
	var roots []*ssa.Function
	want := map[string]bool{"Reader": true, "Merged": true, "Iterator": true}
	bs := p.namedType("BlockSource").Underlying().(*types.Interface)
	for _, f := range p.Funcs {
		if f.Parent() != nil {
			continue
		}
		recv := f.Signature.Recv()
		if recv == nil {
			if f.Name() == "ReadRef" || f.Name() == "ReadLogAt" {
				roots = append(roots, f)
			}
			continue
		}
		rt := recv.Type()
		if pt, ok := rt.(*types.Pointer); ok {
			rt = pt.Elem()
		}
		n, ok := rt.(*types.Named)
		if !ok || f.Name() == "Close" {
			continue
		}
		if want[n.Obj().Name()] && token.IsExported(f.Name()) {
			roots = append(roots, f)
		}
		if types.Implements(recv.Type(), bs) || types.Implements(types.NewPointer(rt), bs) {
			if bs.NumMethods() > 0 {
				for i := 0; i < bs.NumMethods(); i++ {
					if bs.Method(i).Name() == f.Name() {
						roots = append(roots, f)
					}
				}
			}
		}
	}
	if len(roots) < 15 {
		fatalf("effects: only %d read-API roots found", len(roots))
	}
	return roots
}

type effectsAnalysis struct {
	p        *Program
	r        *Report
	shared   map[string]bool // names of shared types
	reach    map[*ssa.Function]bool
	taintPar map[*ssa.Parameter]bool
	nStores  int
	nCalls   int
	nFuncs   int
}

// sharedTypes: Reader, Merged, every BlockSource implementation, and the
// immutable per-block reader (a struct holding the block bytes that the
// block iterator points to).
func sharedTypes(p *Program) map[string]bool {
	sh := map[string]bool{"Reader": true, "Merged": true}
	bs := p.namedType("BlockSource").Underlying().(*types.Interface)
	scope := p.Main.Types.Scope()
	for _, n := range scope.Names() {
		tn, ok := scope.Lookup(n).(*types.TypeName)
		if !ok {
			continue
		}
		if _, isI := tn.Type().Underlying().(*types.Interface); isI {
			continue
		}
		if types.Implements(tn.Type(), bs) || types.Implements(types.NewPointer(tn.Type()), bs) {
			sh[n] = true
		}
	}
	// the block reader: the struct type the Reader's block-opening method returns a pointer to
	rd := p.namedType("Reader")
	ms := p.SSA.MethodSets.MethodSet(types.NewPointer(rd))
	for i := 0; i < ms.Len(); i++ {
		f := p.SSA.MethodValue(ms.At(i))
		if f == nil || f.Signature.Results().Len() != 2 {
			continue
		}
		if pt, ok := f.Signature.Results().At(0).Type().(*types.Pointer); ok {
			if n, ok := pt.Elem().(*types.Named); ok {
				// records are per-caller values (a lookup helper may hand one back)
				if rec, isI := p.namedType("record").Underlying().(*types.Interface); isI && (types.Implements(pt, rec) || types.Implements(n, rec)) {
					continue
				}
				if st, ok := n.Underlying().(*types.Struct); ok {
					for j := 0; j < st.NumFields(); j++ {
						if sl, ok := st.Field(j).Type().(*types.Slice); ok {
							if b, ok := sl.Elem().(*types.Basic); ok && b.Kind() == types.Byte {
								sh[n.Obj().Name()] = true
							}
						}
					}
				}
			}
		}
	}
	return sh
}

func (e *effectsAnalysis) isSharedPtr(t types.Type) bool {
	pt, ok := t.Underlying().(*types.Pointer)
	if !ok {
		return false
	}
	n, ok := pt.Elem().(*types.Named)
	return ok && n.Obj().Pkg() == e.p.Main.Types && e.shared[n.Obj().Name()]
}

func isFresh(v ssa.Value) bool {
	switch v := v.(type) {
	case *ssa.Alloc, *ssa.MakeSlice, *ssa.MakeMap, *ssa.MakeClosure:
		return true
	case *ssa.Slice:
		return isFresh(v.X)
	case *ssa.Call:
		if b, ok := v.Call.Value.(*ssa.Builtin); ok && b.Name() == "append" {
			return isFresh(v.Call.Args[0]) || isNilConst(v.Call.Args[0])
		}
	case *ssa.Phi:
		for _, e := range v.Edges {
			if !isFresh(e) && !isNilConst(e) {
				return false
			}
		}
		return true
	}
	return false
}

func isNilConst(v ssa.Value) bool {
	c, ok := v.(*ssa.Const)
	return ok && c.Value == nil
}

// sharedChain walks an address (or slice/map value) up its access path and
// reports the first step through a non-fresh pointer of a shared type.
func (e *effectsAnalysis) sharedChain(v ssa.Value, depth int) (bool, string) {
	if depth > 12 {
		return false, ""
	}
	switch a := v.(type) {
	case *ssa.FieldAddr:
		if e.isSharedPtr(a.X.Type()) && !isFresh(a.X) {
			st := a.X.Type().Underlying().(*types.Pointer).Elem().Underlying().(*types.Struct)
			return true, fmt.Sprintf("field %s of shared %s", fname(st.Field(a.Field)), types.TypeString(a.X.Type(), func(*types.Package) string { return "" }))
		}
		return e.sharedChain(a.X, depth+1)
	case *ssa.IndexAddr:
		return e.sharedChain(a.X, depth+1)
	case *ssa.UnOp:
		if a.Op == token.MUL {
			return e.sharedChain(a.X, depth+1)
		}
	case *ssa.Slice:
		return e.sharedChain(a.X, depth+1)
	case *ssa.Phi:
		for _, ed := range a.Edges {
			if ok, why := e.sharedChain(ed, depth+1); ok {
				return true, why
			}
		}
	case *ssa.Field:
		return e.sharedChain(a.X, depth+1)
	case *ssa.ChangeType:
		return e.sharedChain(a.X, depth+1)
	case *ssa.Lookup:
		return e.sharedChain(a.X, depth+1)
	case *ssa.Parameter, *ssa.FreeVar:
		if e.isSharedPtr(a.Type()) {
			return true, "shared " + types.TypeString(a.Type(), func(*types.Package) string { return "" }) + " " + a.Name()
		}
	case *ssa.Call:
		if e.isSharedPtr(a.Type()) {
			return true, "shared object returned by " + a.Call.Value.Name()
		}
	case *ssa.Extract:
		if e.isSharedPtr(a.Type()) {
			return true, "shared object (call result)"
		}
	}
	return false, ""
}

// blockTaint: the value is (a sub-slice of) bytes obtained from a block source.
func (e *effectsAnalysis) blockTaint(v ssa.Value, depth int) bool {
	if depth > 12 {
		return false
	}
	switch a := v.(type) {
	case *ssa.Slice:
		return e.blockTaint(a.X, depth+1)
	case *ssa.Phi:
		for _, ed := range a.Edges {
			if e.blockTaint(ed, depth+1) {
				return true
			}
		}
	case *ssa.ChangeType:
		return e.blockTaint(a.X, depth+1)
	case *ssa.Extract:
		if c, ok := a.Tuple.(*ssa.Call); ok && a.Index == 0 {
			return e.isBlockCall(c)
		}
	case *ssa.Call:
		return e.isBlockCall(a)
	case *ssa.Parameter:
		return e.taintPar[a]
	case *ssa.UnOp:
		if a.Op == token.MUL {
			if fa, ok := a.X.(*ssa.FieldAddr); ok && e.isSharedPtr(fa.X.Type()) {
				if sl, ok := a.Type().Underlying().(*types.Slice); ok {
					if b, ok := sl.Elem().(*types.Basic); ok && b.Kind() == types.Byte {
						return true
					}
				}
			}
		}
	}
	return false
}

func (e *effectsAnalysis) isBlockCall(c *ssa.Call) bool {
	if c.Call.IsInvoke() {
		return c.Call.Method.Name() == "ReadBlock"
	}
	if f := c.Call.StaticCallee(); f != nil && f.Pkg == e.p.Pkg {
		// in-package functions returning ([]byte, error) that themselves return block bytes
		res := f.Signature.Results()
		if res.Len() >= 1 {
			if sl, ok := res.At(0).Type().(*types.Slice); ok {
				if b, ok := sl.Elem().(*types.Basic); ok && b.Kind() == types.Byte {
					for _, bl := range f.Blocks {
						for _, ins := range bl.Instrs {
							if ret, ok := ins.(*ssa.Return); ok && len(ret.Results) > 0 && e.blockTaint(ret.Results[0], 0) {
								return true
							}
						}
					}
				}
			}
		}
	}
	return false
}

// external positions that only read the bytes handed to them
var readOnlyExternal = map[string]map[int]bool{
	"bytes.Compare": {0: true, 1: true}, "bytes.Equal": {0: true, 1: true}, "bytes.NewBuffer": {0: true}, "bytes.NewReader": {0: true},
	"hash/crc32.ChecksumIEEE": {0: true}, "(encoding/binary.bigEndian).Uint16": {1: true}, "(encoding/binary.bigEndian).Uint32": {1: true}, "(encoding/binary.bigEndian).Uint64": {1: true},
	"fmt.Errorf": {1: true}, "fmt.Sprintf": {1: true},
}

func (e *effectsAnalysis) viol(rule string, f *ssa.Function, pos token.Pos, what string) {
	e.r.violate(rule, funcKey(f)+" / "+what, e.p.pos(pos), fmt.Sprintf("%s in %s, which is reachable from the read API: concurrent readers of one shared Reader/Merged would race or see each other's state", what, funcKey(f)), nil)
}

func (e *effectsAnalysis) checkFunc(f *ssa.Function) {
	e.nFuncs++
	for _, b := range f.Blocks {
		for _, ins := range b.Instrs {
			switch ins := ins.(type) {
			case *ssa.Store:
				e.nStores++
				if g, ok := ins.Addr.(*ssa.Global); ok {
					e.viol("E3", f, ins.Pos(), "store to package-level variable "+g.Name())
					continue
				}
				if ok, why := e.sharedChain(ins.Addr, 0); ok {
					e.viol("E1", f, ins.Pos(), "write through "+why)
					continue
				}
				if ia, ok := ins.Addr.(*ssa.IndexAddr); ok && e.blockTaint(ia.X, 0) {
					e.viol("E2", f, ins.Pos(), "element store into bytes obtained from a block source")
				}
			case *ssa.MapUpdate:
				e.nStores++
				if ok, why := e.sharedChain(ins.Map, 0); ok {
					e.viol("E1", f, ins.Pos(), "map update through "+why)
				}
			case ssa.CallInstruction:
				e.nCalls++
				c := ins.Common()
				if bi, ok := c.Value.(*ssa.Builtin); ok {
					switch bi.Name() {
					case "append":
						if sl, isSl := c.Args[0].(*ssa.Slice); isSl && sl.Max != nil && sameSSAExpr(sl.Max, sl.High, 3) {
							// s[lo:hi:hi] has no spare capacity: append copies, it
							// never writes into the backing array of s
							break
						}
						if ok, why := e.sharedChain(c.Args[0], 0); ok {
							e.viol("E1", f, ins.Pos(), "append to a slice loaded from "+why+" (may write into the shared backing array)")
						} else if e.blockTaint(c.Args[0], 0) {
							e.viol("E2", f, ins.Pos(), "append to bytes obtained from a block source")
						}
					case "copy":
						if ok, why := e.sharedChain(c.Args[0], 0); ok {
							e.viol("E1", f, ins.Pos(), "copy into a slice loaded from "+why)
						} else if e.blockTaint(c.Args[0], 0) {
							e.viol("E2", f, ins.Pos(), "copy into bytes obtained from a block source")
						}
					case "delete":
						if ok, why := e.sharedChain(c.Args[0], 0); ok {
							e.viol("E1", f, ins.Pos(), "delete from a map reached through "+why)
						}
					}
					continue
				}
				cal := c.StaticCallee()
				name := ""
				if cal != nil {
					name = funcKey(cal)
				} else if c.IsInvoke() {
					name = "invoke " + c.Method.FullName()
				}
				// E3: hidden global state
				if strings.HasPrefix(name, "math/rand.") || strings.HasPrefix(name, "(*math/rand.Rand).") {
					e.viol("E3", f, ins.Pos(), "use of math/rand state ("+name+")")
				}
				// E4: file handles
				if strings.HasPrefix(name, "(*os.File).") {
					m := strings.TrimPrefix(name, "(*os.File).")
					if m != "ReadAt" && m != "Stat" {
						e.viol("E4", f, ins.Pos(), "(*os.File)."+m+" on a shared file handle (only positional ReadAt and Stat are safe)")
					} else {
						e.r.ok("E4", funcKey(f)+" / (*os.File)."+m, "positional read / stat only")
					}
				}
				if name == "os.Open" || name == "os.OpenFile" || name == "os.Create" {
					e.viol("E4", f, ins.Pos(), name+" on a read path (tables must be read through the descriptor opened at construction, which keeps unlinked tables readable)")
				}
				// E2: block bytes escaping to external callees that may write
				if cal != nil && cal.Pkg != e.p.Pkg {
					for i, a := range c.Args {
						if e.blockTaint(a, 0) && !readOnlyExternal[name][i] {
							e.viol("E2", f, ins.Pos(), fmt.Sprintf("block bytes passed to %s (argument %d), not known to be read-only", name, i))
						}
					}
				}
			}
		}
	}
}

// propagateTaint marks parameters of in-package functions that may receive block bytes.
func (e *effectsAnalysis) propagateTaint() {
	changed := true
	for changed {
		changed = false
		for f := range e.reach {
			for _, b := range f.Blocks {
				for _, ins := range b.Instrs {
					ci, ok := ins.(ssa.CallInstruction)
					if !ok {
						continue
					}
					c := ci.Common()
					var targets []*ssa.Function
					args := c.Args
					if c.IsInvoke() {
						if iface, ok := c.Value.Type().Underlying().(*types.Interface); ok {
							_ = iface
							for g := range e.reach {
								if g.Signature.Recv() != nil && g.Name() == c.Method.Name() {
									targets = append(targets, g)
								}
							}
						}
					} else if g := c.StaticCallee(); g != nil && g.Pkg == e.p.Pkg {
						targets = append(targets, g)
					}
					for _, g := range targets {
						off := 0
						if c.IsInvoke() {
							off = 1
						}
						for i, a := range args {
							if i+off < len(g.Params) && e.blockTaint(a, 0) && !e.taintPar[g.Params[i+off]] {
								if sl, ok := g.Params[i+off].Type().Underlying().(*types.Slice); ok {
									if bb, ok := sl.Elem().(*types.Basic); ok && bb.Kind() == types.Byte {
										e.taintPar[g.Params[i+off]] = true
										changed = true
									}
								}
							}
						}
					}
				}
			}
		}
	}
}

func checkEffects(p *Program, r *Report) {
	cg := buildCallGraph(p)
	roots := readRoots(p, cg)
	e := &effectsAnalysis{p: p, r: r, shared: sharedTypes(p), reach: cg.reachable(roots), taintPar: map[*ssa.Parameter]bool{}}
	e.propagateTaint()
	var fns []*ssa.Function
	for f := range e.reach {
		fns = append(fns, f)
	}
	sort.Slice(fns, func(i, j int) bool { return funcKey(fns[i]) < funcKey(fns[j]) })
	before := len(r.Viol)
	for _, f := range fns {
		e.checkFunc(f)
	}
	var names []string
	for _, f := range fns {
		names = append(names, funcKey(f))
	}
	var sh []string
	for s := range e.shared {
		sh = append(sh, s)
	}
	sort.Strings(sh)
	if len(r.Viol) == before {
		r.ok("E1", "read API / no write through shared objects", fmt.Sprintf("%d stores and map updates in %d reachable functions examined", e.nStores, len(fns)))
		r.ok("E2", "read API / block bytes are never written", "no element store, copy destination or append base is derived from block-source bytes")
		r.ok("E3", "read API / no package-level state", "no store to a global and no math/rand use")
	}
	// E5: shared types hold no per-caller objects
	perCaller := map[string]bool{}
	for _, n := range []string{"iterator", "record"} {
		if o := p.Main.Types.Scope().Lookup(n); o != nil {
			if iface, ok := o.Type().Underlying().(*types.Interface); ok {
				scope := p.Main.Types.Scope()
				for _, tn := range scope.Names() {
					if t, ok := scope.Lookup(tn).(*types.TypeName); ok {
						if _, isI := t.Type().Underlying().(*types.Interface); !isI && (types.Implements(t.Type(), iface) || types.Implements(types.NewPointer(t.Type()), iface)) {
							perCaller[tn] = true
						}
					}
				}
				perCaller[n] = true
			}
		}
	}
	perCaller["Iterator"] = true
	for _, sname := range sh {
		st, ok := p.namedType(sname).Underlying().(*types.Struct)
		if !ok {
			continue
		}
		bad := ""
		for i := 0; i < st.NumFields(); i++ {
			ft := st.Field(i).Type()
			for {
				switch u := ft.(type) {
				case *types.Pointer:
					ft = u.Elem()
					continue
				case *types.Slice:
					ft = u.Elem()
					continue
				}
				break
			}
			if n, ok := ft.(*types.Named); ok && n.Obj().Pkg() == p.Main.Types && perCaller[n.Obj().Name()] {
				bad = fname(st.Field(i)) + " " + n.Obj().Name()
			}
		}
		if bad != "" {
			r.violate("E5", sname+" / shared type holds no per-caller object", p.pos(p.namedType(sname).Obj().Pos()), "shared type "+sname+" has a field of a per-caller type ("+bad+"): iterators or records handed out from it would be shared between callers", nil)
		} else {
			r.ok("E5", sname+" / shared type holds no per-caller object", "no iterator or record typed field")
		}
	}
	r.floor("effects.functions", len(fns), 60, "functions reachable from the read API")
	r.floor("effects.stores", e.nStores, 100, "stores examined")
	r.Stats["read_roots"] = len(roots)
	r.Stats["reachable_functions"] = names
	r.Stats["shared_types"] = sh
	r.Stats["stores_examined"] = e.nStores
	r.Stats["calls_examined"] = e.nCalls
}

func init() {
	checks["C19"] = func(p *Program, r *Report) {
		checkEffects(p, r)
		r.Engines = []string{"effects"}
		r.Explanation = "Effect analysis over every function reachable from the read API (exported methods of Reader, Merged and Iterator, ReadRef/ReadLogAt, all methods of the in-package block sources; interface calls resolved over the package's own method sets): no store, map update, delete, copy destination or append base reaches memory through a non-fresh pointer of a shared type (Reader, Merged, block sources, block reader) or bytes obtained from a block source; no package-level variable is written and no math/rand state used; file handles are only used positionally (ReadAt/Stat) and no file is opened on a read path; shared types have no iterator- or record-typed field. Immutability after construction is a sufficient structural condition for race freedom and a necessary one for this design (there are no locks)."
		r.NotDecided = []string{"data-race freedom of user-supplied BlockSource implementations", "a correctly locked cache would be reported (the design is immutability; no such code exists)", "aliasing through interfaces outside the package"}
		r.Assumptions = []string{"external callees write only through the argument positions not listed as read-only", "type-based sharing: an object is shared iff it is reached through a pointer of a shared type that the function did not allocate itself"}
	}
}

// sameSSAExpr: two SSA values denote the same pure expression (go/ssa does no
// common-subexpression elimination): identical values, equal constants, or
// the same operator applied to pairwise same operands.
func sameSSAExpr(a, b ssa.Value, depth int) bool {
	if a == b {
		return true
	}
	if depth == 0 {
		return false
	}
	switch x := a.(type) {
	case *ssa.Const:
		y, ok := b.(*ssa.Const)
		return ok && x.Value != nil && y.Value != nil && x.Value.ExactString() == y.Value.ExactString() && types.Identical(x.Type(), y.Type())
	case *ssa.BinOp:
		y, ok := b.(*ssa.BinOp)
		return ok && x.Op == y.Op && sameSSAExpr(x.X, y.X, depth-1) && sameSSAExpr(x.Y, y.Y, depth-1)
	case *ssa.Convert:
		y, ok := b.(*ssa.Convert)
		return ok && types.Identical(x.Type(), y.Type()) && sameSSAExpr(x.X, y.X, depth-1)
	}
	return false
}

// copyStateless copies the effect rules E1 (no write through shared reader /
// merged-view objects on the read path) and E3 (no package-level state) into a
// report under another rule name: what a read returns is then a function of the
// table bytes and the arguments only, never of earlier reads.
func copyStateless(p *Program, r *Report, rule, what string, exclude ...string) {
	r2 := newReport(r.Property, r.Tier, r.Seed)
	checkEffects(p, r2)
	for k, o := range r2.Obl {
		if o.Rule != "E1" && o.Rule != "E3" && o.Rule != "E5" {
			continue
		}
		skip := false
		for _, ex := range exclude {
			if strings.Contains(k, ex) {
				skip = true // state of an object this property does not read through
			}
		}
		if skip {
			continue
		}
		key := strings.TrimPrefix(strings.TrimPrefix(strings.TrimPrefix(k, "E1 / "), "E3 / "), "E5 / ")
		if v, bad := r2.Viol[k]; bad {
			r.violate(rule, key, v.Where, what+": "+v.Message, nil)
		} else {
			r.ok(rule, key, o.Note)
		}
	}
}
