package main

import (
	"fmt"
	"go/token"
	"go/types"
	"os"
	"sort"
	"strconv"
	"strings"

	"golang.org/x/tools/go/ssa"
)

// bounds (C18 c): every index, slice and computed-size allocation in the
// byte decoders is an obligation, discharged along the paths of the abstract
// simulation in a small relational domain: linear inequalities over canonical
// terms (DESIGN §3.6).  Integer conversions that may change the value are
// opaque (StrictConv), so a comparison made after a narrowing conversion
// proves nothing about the value that is later used as an index.

type linForm struct {
	coef map[string]int64
	atom map[string]*Term
	c    int64
}

func newLin() *linForm { return &linForm{coef: map[string]int64{}, atom: map[string]*Term{}} }

func (l *linForm) add(o *linForm, k int64) *linForm {
	n := newLin()
	n.c = l.c + k*o.c
	for a, c := range l.coef {
		n.coef[a] = c
		n.atom[a] = l.atom[a]
	}
	for a, c := range o.coef {
		n.coef[a] += k * c
		n.atom[a] = o.atom[a]
		if n.coef[a] == 0 {
			delete(n.coef, a)
			delete(n.atom, a)
		}
	}
	return n
}

func linConst(c int64) *linForm { l := newLin(); l.c = c; return l }
func linAtom(t *Term) *linForm {
	l := newLin()
	l.coef[t.key] = 1
	l.atom[t.key] = t
	return l
}

func (l *linForm) String() string {
	var ks []string
	for k := range l.coef {
		ks = append(ks, k)
	}
	sort.Strings(ks)
	var ps []string
	for _, k := range ks {
		ps = append(ps, fmt.Sprintf("%d*%s", l.coef[k], l.atom[k]))
	}
	ps = append(ps, strconv.FormatInt(l.c, 10))
	return strings.Join(ps, " + ")
}

type boundsClient struct {
	simClient
	r         *Report
	fn        string // function under analysis
	oblOK     map[string]bool
	oblBad    map[string]string
	oblPos    map[string]token.Pos
	cands     map[string][]invCand // loop id -> candidate invariants
	dropped   map[string]map[string]bool
	changed   bool
	entryVals map[string]*Term
	ffState   *State
	ffN       int
	ffMem     int
	ffCache   []*linForm
	arrLen    map[string]int64
	wrapBusy  map[string]bool
	wrapMemo  map[string]bool
	nObl      int
}

// lin linearises an integer term.
func (b *boundsClient) lin(st *State, t *Term) *linForm {
	switch t.Op {
	case "const":
		if v, err := strconv.ParseInt(t.Aux, 0, 64); err == nil {
			return linConst(v)
		}
		if s, ok := constString(t); ok {
			_ = s
		}
	case "bin":
		switch t.Aux {
		case "+":
			if narrowUnsigned(t.Typ) > 0 && !b.fitsNarrow(st, t, b.lin(st, t.Args[0]).add(b.lin(st, t.Args[1]), 1)) {
				return linAtom(t) // may wrap around in 8 or 16 bits: an opaque value
			}
			return b.lin(st, t.Args[0]).add(b.lin(st, t.Args[1]), 1)
		case "-":
			if isUnsignedType(t.Typ) && !b.noWrap(st, t) {
				// an unsigned difference whose subtrahend is not shown to be at most
				// the minuend may wrap around: it is an opaque value
				return linAtom(t)
			}
			return b.lin(st, t.Args[0]).add(b.lin(st, t.Args[1]), -1)
		case "*":
			for i := 0; i < 2; i++ {
				if c, ok := termInt(t.Args[i]); ok {
					l := newLin().add(b.lin(st, t.Args[1-i]), c)
					if narrowUnsigned(t.Typ) > 0 && !b.fitsNarrow(st, t, l) {
						return linAtom(t) // 3*i computed in 16 bits wraps for i > 21845
					}
					return l
				}
			}
		}
	case "len":
		return b.linLen(st, t.Args[0])
	}
	return linAtom(t)
}

// narrowUnsigned: the largest value of an 8- or 16-bit unsigned type (0 for
// every other type).  Sums and products in these types wrap early enough for a
// count read from a table (up to 65535 restarts) to trigger it.
func narrowUnsigned(t types.Type) int64 {
	if t == nil {
		return 0
	}
	if bt, ok := t.Underlying().(*types.Basic); ok {
		switch bt.Kind() {
		case types.Uint8:
			return 255
		case types.Uint16:
			return 65535
		}
	}
	return 0
}

// fitsNarrow: the unwrapped value l of the narrow unsigned expression t is at
// most the type's maximum on this path.
func (b *boundsClient) fitsNarrow(st *State, t *Term, l *linForm) bool {
	if b.wrapBusy == nil {
		b.wrapBusy = map[string]bool{}
		b.wrapMemo = map[string]bool{}
	}
	if b.wrapBusy[t.key] {
		return false
	}
	b.wrapBusy[t.key] = true
	defer delete(b.wrapBusy, t.key)
	g := l.add(linConst(narrowUnsigned(t.Typ)), -1)
	return b.prove(st, g)
}

// noWrap: the unsigned subtraction t = x - y cannot wrap on this path (y <= x
// follows from the path's facts).  Constants subtracted from lengths and from
// values with a proven lower bound are the common case.
func (b *boundsClient) noWrap(st *State, t *Term) bool {
	if b.wrapBusy == nil {
		b.wrapBusy = map[string]bool{}
		b.wrapMemo = map[string]bool{}
	}
	k := t.key + "@" + fmt.Sprintf("%p/%d", st, len(st.facts))
	if v, ok := b.wrapMemo[k]; ok {
		return v
	}
	if b.wrapBusy[t.key] {
		return false
	}
	b.wrapBusy[t.key] = true
	defer delete(b.wrapBusy, t.key)
	goal := b.lin(st, t.Args[1]).add(b.lin(st, t.Args[0]), -1) // y - x <= 0
	ok := b.prove(st, goal)
	if os.Getenv("RSA_DEBUG") == "20" {
		fmt.Fprintf(os.Stderr, "NOWRAP %v %s goal %s\n", ok, t, goal)
	}
	b.wrapMemo[k] = ok
	// facts converted while this difference was still undecided treated it as
	// opaque: convert them again
	b.ffState = nil
	return ok
}

func (b *boundsClient) linLen(st *State, x *Term) *linForm {
	switch x.Op {
	case "subslice":
		base, lo, hi := x.Args[0], x.Args[1], x.Args[2]
		var h *linForm
		if hi.isNilConst() {
			h = b.linLen(st, base)
		} else {
			h = b.lin(st, hi)
		}
		if lo.isNilConst() {
			return h
		}
		return h.add(b.lin(st, lo), -1)
	case "madeslice":
		if c, ok := st.mem["len:"+x.key]; ok {
			return b.lin(st, c.val)
		}
	case "const":
		if s, ok := constString(x); ok {
			return linConst(int64(len(s)))
		}
		if x.isNilConst() {
			return linConst(0)
		}
	case "slice":
		if n, ok := b.arrLen[x.Args[0].key]; ok {
			return linConst(n)
		}
	case "list":
		if x.Aux == "exact" {
			return linConst(int64(len(x.Args)))
		}
	}
	return linAtom(mk("len", "", types.Typ[types.Int], x))
}

func isUnsignedType(t types.Type) bool {
	if t == nil {
		return false
	}
	b, ok := t.Underlying().(*types.Basic)
	return ok && b.Info()&types.IsUnsigned != 0
}

// nonNeg: the atom cannot be negative.
func nonNeg(t *Term) bool {
	switch t.Op {
	case "len":
		return true
	case "conv":
		return isUnsignedType(t.Typ) || (strings.Contains(t.Aux, "<-uint") && !strings.HasPrefix(t.Aux, "int<-uint64") && !strings.HasPrefix(t.Aux, "int<-uint32x"))
	}
	return isUnsignedType(t.Typ)
}

// upper: a constant upper bound of the atom from its type or shape.
func upperOf(t *Term) (int64, bool) {
	if t.Typ != nil {
		if bt, ok := t.Typ.Underlying().(*types.Basic); ok {
			switch bt.Kind() {
			case types.Uint8:
				return 255, true
			case types.Uint16:
				return 65535, true
			}
		}
	}
	if t.Op == "bin" && t.Aux == "&" {
		for _, a := range t.Args {
			if c, ok := termInt(a); ok && c >= 0 {
				return c, true
			}
		}
	}
	return 0, false
}

// facts of the state as forms f <= 0.
func (b *boundsClient) factForms(st *State) []*linForm {
	if b.ffState == st && b.ffN == len(st.facts) && b.ffMem == len(st.mem) {
		return b.ffCache
	}
	fs := b.factForms0(st)
	b.ffState, b.ffN, b.ffMem, b.ffCache = st, len(st.facts), len(st.mem), fs
	return fs
}

func (b *boundsClient) factForms0(st *State) []*linForm {
	var fs []*linForm
	var neq [][2]*Term
	var keys []string
	for _, k := range sortedFactKeys(st) {
		keys = append(keys, k)
	}
	sort.Strings(keys)
	for _, k := range keys {
		t, v := st.fterm[k], st.facts[k]
		switch t.Op {
		case "lt":
			a, c := b.lin(st, t.Args[0]), b.lin(st, t.Args[1])
			if v {
				f := a.add(c, -1)
				f.c++
				fs = append(fs, f)
			} else {
				fs = append(fs, c.add(a, -1))
			}
		case "eq":
			if !v && isIntLike(t.Args[0]) && isIntLike(t.Args[1]) {
				neq = append(neq, [2]*Term{t.Args[0], t.Args[1]})
			}
			if !v {
				// x != 0 for a length: x >= 1
				for i := 0; i < 2; i++ {
					a, z := t.Args[i], t.Args[1-i]
					if z.isConst() && z.Aux == "0" && (a.Op == "len" || nonNeg(a)) {
						f := newLin().add(b.lin(st, a), -1)
						f.c++
						fs = append(fs, f)
					}
				}
				continue
			}
			if !isIntLike(t.Args[0]) && !isIntLike(t.Args[1]) {
				continue
			}
			a, c := b.lin(st, t.Args[0]), b.lin(st, t.Args[1])
			fs = append(fs, a.add(c, -1), c.add(a, -1))
		}
	}
	// x != y together with x <= y (from the other facts) gives x < y
	base := fs
	for _, pr := range neq {
		a, c := b.lin(st, pr[0]), b.lin(st, pr[1])
		d := a.add(c, -1)
		if len(d.coef) == 0 {
			continue
		}
		if proveDepth(base, d, 1) {
			f := a.add(c, -1)
			f.c++
			fs = append(fs, f)
		} else if proveDepth(base, c.add(a, -1), 1) {
			f := c.add(a, -1)
			f.c++
			fs = append(fs, f)
		}
	}
	return fs
}

func isIntLike(t *Term) bool {
	if t.Op == "const" {
		_, ok := termInt(t)
		return ok
	}
	if t.Op == "len" {
		return true
	}
	if t.Typ != nil {
		if bt, ok := t.Typ.Underlying().(*types.Basic); ok {
			return bt.Info()&types.IsInteger != 0
		}
	}
	return false
}

// triviallyNonPos: form <= 0 by signs, type bounds and the constant bounds
// that single-atom facts of the path give (lo/hi may be nil).
func triviallyNonPos(f *linForm, lo, hi map[string]int64) bool {
	c := f.c
	for k, co := range f.coef {
		a := f.atom[k]
		switch {
		case co < 0:
			l, ok := lo[k]
			if nonNeg(a) && (!ok || l < 0) {
				l, ok = 0, true
			}
			if !ok {
				return false
			}
			c += co * l
		case co > 0:
			u, ok := hi[k]
			if tu, tok := upperOf(a); tok && (!ok || tu < u) {
				u, ok = tu, true
			}
			if !ok {
				return false
			}
			c += co * u
		}
	}
	return c <= 0
}

// atomBounds extracts constant lower/upper bounds of single atoms from the facts.
func atomBounds(facts []*linForm) (map[string]int64, map[string]int64) {
	lo, hi := map[string]int64{}, map[string]int64{}
	for _, f := range facts {
		if len(f.coef) != 1 {
			continue
		}
		for k, co := range f.coef {
			// co*a + c <= 0
			if co == 1 {
				if u, ok := hi[k]; !ok || -f.c < u {
					hi[k] = -f.c
				}
			}
			if co == -1 {
				if l, ok := lo[k]; !ok || f.c > l {
					lo[k] = f.c
				}
			}
		}
	}
	return lo, hi
}

func shares(f, g *linForm) bool {
	for k := range f.coef {
		if _, ok := g.coef[k]; ok {
			return true
		}
	}
	return false
}

// prove goal <= 0 from at most three facts (bounded Fourier-Motzkin step).
func (b *boundsClient) prove(st *State, goal *linForm) bool {
	return proveFrom(b.factForms(st), goal)
}

func proveFrom(facts []*linForm, goal *linForm) bool { return proveDepth(facts, goal, 3) }

func proveDepth(facts []*linForm, goal *linForm, maxDepth int) bool {
	lo, hi := atomBounds(facts)
	if triviallyNonPos(goal, lo, hi) {
		return true
	}
	used := make([]bool, len(facts))
	var rec func(g *linForm, depth int) bool
	rec = func(g *linForm, depth int) bool {
		if triviallyNonPos(g, lo, hi) {
			return true
		}
		if depth == 0 {
			return false
		}
		for i, f := range facts {
			if used[i] || !shares(g, f) {
				continue
			}
			used[i] = true
			for _, k := range []int64{1, 2, 3} {
				if rec(g.add(f, -k), depth-1) {
					used[i] = false
					return true
				}
			}
			used[i] = false
		}
		return false
	}
	return rec(goal, maxDepth)
}

func (b *boundsClient) obligation(st *State, fr *Frame, ins ssa.Instruction, what string, goal *linForm) {
	b.nObl++
	key := funcKey(fr.fn) + " / " + what
	if _, bad := b.oblBad[key]; bad {
		return
	}
	if b.prove(st, goal) {
		if !b.oblOK[key] {
			b.oblOK[key] = true
		}
		return
	}
	b.oblBad[key] = "cannot show " + goal.String() + " <= 0"
	b.oblPos[key] = ins.Pos()
	delete(b.oblOK, key)
	if b.r != nil {
		b.r.Stats["bounds.last_witness."+key] = witnessOf(b.p, st.trace)
	}
}

func exprOf(ins ssa.Instruction) string {
	switch i := ins.(type) {
	case *ssa.IndexAddr:
		return i.X.Name() + "[" + i.Index.Name() + "]"
	case *ssa.Index:
		return i.X.Name() + "[" + i.Index.Name() + "]"
	case *ssa.Slice:
		lo, hi := "", ""
		if i.Low != nil {
			lo = i.Low.Name()
		}
		if i.High != nil {
			hi = i.High.Name()
		}
		return i.X.Name() + "[" + lo + ":" + hi + "]"
	case *ssa.MakeSlice:
		return "make(" + i.Len.Name() + ")"
	}
	return "?"
}

// roleOfIns names an instruction independent of line numbers: kind plus the
// ordinal among instructions of that kind in the function.
func roleOfIns(fn *ssa.Function, ins ssa.Instruction, kind string) string {
	n := 0
	for _, b := range fn.Blocks {
		for _, i := range b.Instrs {
			same := false
			switch i.(type) {
			case *ssa.IndexAddr, *ssa.Index:
				same = kind == "index"
			case *ssa.Slice:
				same = kind == "slice"
			case *ssa.MakeSlice:
				same = kind == "make"
			}
			if same {
				n++
				if i == ins {
					return kind + " #" + strconv.Itoa(n)
				}
			}
		}
	}
	return kind
}

func (b *boundsClient) OnBounds(x *Exec, st *State, fr *Frame, ins ssa.Instruction, kind string, base, lo, hi *Term) {
	role := roleOfIns(fr.fn, ins, kind)
	switch kind {
	case "index":
		var l *linForm
		var xt types.Type
		switch i := ins.(type) {
		case *ssa.IndexAddr:
			xt = i.X.Type()
		case *ssa.Index:
			xt = i.X.Type()
		}
		if pt, ok := xt.Underlying().(*types.Pointer); ok {
			xt = pt.Elem()
		}
		if at, ok := xt.Underlying().(*types.Array); ok {
			l = linConst(at.Len())
		} else if _, isMap := xt.Underlying().(*types.Map); isMap {
			return
		} else {
			l = b.linLen(st, base)
		}
		i := b.lin(st, lo)
		b.obligation(st, fr, ins, role+" lower", newLin().add(i, -1))
		up := i.add(l, -1)
		up.c++
		b.obligation(st, fr, ins, role+" upper", up)
	case "slice":
		var xt types.Type = ins.(*ssa.Slice).X.Type()
		var l *linForm
		if pt, ok := xt.Underlying().(*types.Pointer); ok {
			if at, ok := pt.Elem().Underlying().(*types.Array); ok {
				l = linConst(at.Len())
				b.arrLen[base.key] = at.Len()
			}
		}
		if l == nil {
			l = b.linLen(st, base)
		}
		loF := linConst(0)
		if !lo.isNilConst() {
			loF = b.lin(st, lo)
			b.obligation(st, fr, ins, role+" low >= 0", newLin().add(loF, -1))
		}
		hiF := l
		if !hi.isNilConst() {
			hiF = b.lin(st, hi)
			b.obligation(st, fr, ins, role+" high <= len", hiF.add(l, -1))
		}
		b.obligation(st, fr, ins, role+" low <= high", loF.add(hiF, -1))
	case "make":
		sz := b.lin(st, lo)
		b.obligation(st, fr, ins, role+" size >= 0", newLin().add(sz, -1))
		// bounded allocation: size <= 2^25, or <= the length of an input + 2^25
		direct := b.prove(st, sz.add(linConst(1<<25), -1))
		if !direct {
			for _, f := range b.lenAtoms(st) {
				if b.prove(st, sz.add(f, -1).add(linConst(1<<25), -1)) {
					direct = true
					break
				}
			}
		}
		if direct {
			b.obligation(st, fr, ins, role+" size bounded by input", linConst(0))
			return
		}
		bound := sz
		for k, co := range sz.coef {
			if co <= 0 {
				continue
			}
			a := sz.atom[k]
			// replace a by the smallest len-atom L with a <= L provable
			replaced := false
			for _, f := range b.lenAtoms(st) {
				g := linAtom(a).add(f, -1)
				if b.prove(st, g) {
					bound = bound.add(linAtom(a), -co)
					replaced = true
					break
				}
			}
			if u, ok := upperOf(a); ok && !replaced {
				bound = bound.add(linAtom(a), -co)
				bound.c += co * u
				replaced = true
			}
			if !replaced {
				b.obligation(st, fr, ins, role+" size bounded by input", linAtom(a).add(linConst(1<<25), -1))
				return
			}
		}
		b.obligation(st, fr, ins, role+" size bounded by input", bound.add(linConst(1<<25), -1))
	}
}

// lenAtoms: len() atoms of inputs (parameters and what they point to) in the facts.
func (b *boundsClient) lenAtoms(st *State) []*linForm {
	seen := map[string]bool{}
	var res []*linForm
	for _, t := range st.fterm {
		t.walk(func(u *Term) {
			if u.Op == "len" && !seen[u.key] {
				seen[u.key] = true
				res = append(res, b.linLen(st, u.Args[0]))
			}
		})
	}
	return res
}

// SafeConv: the conversion preserves the value on this path.
func (b *boundsClient) SafeConv(x *Exec, st *State, v *Term, fromBits int, fromSigned bool, toBits int, toSigned bool) bool {
	l := b.lin(st, v)
	// lower bound
	if fromSigned && !toSigned {
		if !b.prove(st, newLin().add(l, -1)) {
			return false
		}
	}
	// upper bound: value <= max of the target
	if (toBits < fromBits) || (toBits == fromBits && toSigned && !fromSigned) {
		max := int64(1)<<uint(toBits-1) - 1
		if !toSigned && toBits < 63 {
			max = int64(1)<<uint(toBits) - 1
		}
		if toBits >= 63 {
			// bounded by the length of something in memory is enough
			for _, f := range b.lenAtoms(st) {
				if b.prove(st, l.add(f, -1)) {
					return true
				}
			}
			ok := b.prove(st, l.add(linConst(1<<62), -1))
			if !ok && os.Getenv("RSA_DEBUG") == "10" {
				fmt.Fprintf(os.Stderr, "SafeConv fails for %s\n", l)
				for _, f := range b.factForms(st) {
					fmt.Fprintf(os.Stderr, "   fact %s <= 0\n", f)
				}
			}
			return ok
		}
		return b.prove(st, l.add(linConst(max), -1))
	}
	return true
}

// ---- loop invariants (Houdini): candidates "phi < len(base)" for the slices
// that the loop body indexes with the phi; assumed at the head, checked for
// the entry value and for every back-edge value, dropped when they fail.

type invCand struct {
	le   bool   // "phi <= len(base)" instead of "phi < len(base)"
	sib  string // for le: the "<" candidate it weakens; tried only once that one has been dropped
	phi  string
	base ssa.Value // "phi < len(base)"; nil for "len(phi) <= len(entry value of phi)"
	key  string
}

func (b *boundsClient) candAtom(x *Exec, st *State, fr *Frame, c invCand, v *Term) *Term {
	return tLt(v, mk("len", "", types.Typ[types.Int], x.val(fr, c.base)))
}

// candAtomNeg: the atom whose negation is the candidate "phi <= len(base)".
func (b *boundsClient) candAtomNeg(x *Exec, st *State, fr *Frame, c invCand, v *Term) *Term {
	return tLt(mk("len", "", types.Typ[types.Int], x.val(fr, c.base)), v)
}

func (b *boundsClient) OnLoopHead(x *Exec, st *State, fr *Frame, loopID string, phis map[string]*Term) {
	for _, c := range b.cands[loopID] {
		if b.dropped[loopID][c.key] || (c.le && !b.dropped[loopID][c.sib]) {
			continue
		}
		v, ok := phis[c.phi]
		if !ok {
			continue
		}
		if c.base == nil {
			if e := b.entryVals[loopID+"/"+c.phi]; e != nil {
				st.setFact(tLt(mk("len", "", types.Typ[types.Int], e), mk("len", "", types.Typ[types.Int], v)), false)
			}
			continue
		}
		if c.le {
			st.setFact(b.candAtomNeg(x, st, fr, c, v), false)
			continue
		}
		st.setFact(b.candAtom(x, st, fr, c, v), true)
	}
}

func (b *boundsClient) OnLoopEdge(x *Exec, st *State, fr *Frame, loopID string, vals map[string]*Term, entry bool) {
	for _, c := range b.cands[loopID] {
		if b.dropped[loopID][c.key] || (c.le && !b.dropped[loopID][c.sib]) {
			continue
		}
		v, ok := vals[c.phi]
		if !ok {
			continue
		}
		if c.base == nil {
			if entry {
				if b.entryVals == nil {
					b.entryVals = map[string]*Term{}
				}
				b.entryVals[loopID+"/"+c.phi] = v
				continue
			}
			e := b.entryVals[loopID+"/"+c.phi]
			if e == nil || !b.prove(st, b.linLen(st, v).add(b.linLen(st, e), -1)) {
				if b.dropped[loopID] == nil {
					b.dropped[loopID] = map[string]bool{}
				}
				b.dropped[loopID][c.key] = true
				b.changed = true
			}
			continue
		}
		base := x.val(fr, c.base)
		g := b.lin(st, v).add(b.linLen(st, base), -1)
		if !c.le {
			g.c++
		}
		if !b.prove(st, g) {
			if b.dropped[loopID] == nil {
				b.dropped[loopID] = map[string]bool{}
			}
			b.dropped[loopID][c.key] = true
			b.changed = true
		}
	}
}

func candidateInvariants(fn *ssa.Function, x *Exec) map[string][]invCand {
	res := map[string][]invCand{}
	var visit func(f *ssa.Function)
	seen := map[*ssa.Function]bool{}
	visit = func(f *ssa.Function) {
		if seen[f] || f.Blocks == nil {
			return
		}
		seen[f] = true
		for h, li := range x.loopsOf(f) {
			id := funcKey(f) + "#b" + strconv.Itoa(h.Index)
			for _, ins := range h.Instrs {
				ph, ok := ins.(*ssa.Phi)
				if !ok {
					break
				}
				if _, isSl := ph.Type().Underlying().(*types.Slice); isSl {
					res[id] = append(res[id], invCand{phi: ph.Name(), base: nil, key: "len(" + ph.Name() + ")<=len(entry)"})
					continue
				}
				if bt, ok := ph.Type().Underlying().(*types.Basic); !ok || bt.Info()&types.IsInteger == 0 {
					continue
				}
				for blk := range li.blocks {
					for _, i2 := range blk.Instrs {
						var base, idx ssa.Value
						switch ia := i2.(type) {
						case *ssa.IndexAddr:
							base, idx = ia.X, ia.Index
						case *ssa.Index:
							base, idx = ia.X, ia.Index
						}
						if base == nil || idx != ssa.Value(ph) {
							continue
						}
						if _, isParam := base.(*ssa.Parameter); isParam {
							k := ph.Name() + "<len(" + base.Name() + ")"
							dup := false
							for _, c := range res[id] {
								if c.key == k {
									dup = true
								}
							}
							if !dup {
								res[id] = append(res[id], invCand{phi: ph.Name(), base: base, key: k})
								res[id] = append(res[id], invCand{le: true, sib: k, phi: ph.Name(), base: base, key: ph.Name() + "<=len(" + base.Name() + ")"})
							}
						}
					}
				}
			}
		}
		for _, b := range f.Blocks {
			for _, ins := range b.Instrs {
				if ci, ok := ins.(ssa.CallInstruction); ok {
					if g := ci.Common().StaticCallee(); g != nil && g.Pkg == f.Pkg {
						visit(g)
					}
				}
			}
		}
	}
	visit(fn)
	return res
}

// ---------------------------------------------------------------------------
// driver

// boundsSet: the byte decoders and block/table openers (DESIGN §3.6).
var boundsSet = []string{
	"getVarInt", "decodeKey", "decodeString", "decodeRestartKey",
	"(*RefRecord).decode", "(*LogRecord).decode", "(*LogRecord).decodeKey", "(*objRecord).decode", "(*indexRecord).decode",
	"(*blockIter).Next", "newBlockReader", "extractBlockSize", "(*Reader).newBlockReader", "(*Reader).getBlock",
	"NewReader", "readHeader", "(*ByteBlockSource).ReadBlock", "(*fileBlockSource).ReadBlock", "(*Reader).refsForIndexed",
	"(*blockReader).seek", "(*blockReader).seek$1", "(*blockReader).start",
}

// boundsFunctions: the functions whose index, slice and allocation
// expressions become obligations: everything reachable from the read API and
// NewReader that indexes, slices or sizes an allocation over bytes or strings
// (the byte decoders and block/table openers; iterators over records and the
// heap are decided by other rules).  The frozen list is the reference: every
// function in it that still exists must be selected.
func boundsFunctions(p *Program) []string {
	cg := buildCallGraph(p)
	reach := cg.reachable(hostileRoots(p, cg))
	isBytes := func(t types.Type) bool {
		switch u := t.Underlying().(type) {
		case *types.Slice:
			b, ok := u.Elem().Underlying().(*types.Basic)
			return ok && (b.Kind() == types.Byte || b.Kind() == types.Uint8)
		case *types.Basic:
			return u.Info()&types.IsString != 0
		case *types.Pointer:
			if a, ok := u.Elem().Underlying().(*types.Array); ok {
				b, ok := a.Elem().Underlying().(*types.Basic)
				return ok && b.Kind() == types.Byte
			}
		}
		return false
	}
	sel := map[string]bool{}
	for f := range reach {
		for _, b := range f.Blocks {
			for _, ins := range b.Instrs {
				switch v := ins.(type) {
				case *ssa.IndexAddr:
					if isBytes(v.X.Type()) {
						sel[funcKey(f)] = true
					}
				case *ssa.Index:
					if isBytes(v.X.Type()) {
						sel[funcKey(f)] = true
					}
				case *ssa.Slice:
					if isBytes(v.X.Type()) {
						sel[funcKey(f)] = true
					}
				case *ssa.MakeSlice:
					if _, isC := v.Len.(*ssa.Const); !isC && isBytes(v.Type()) {
						sel[funcKey(f)] = true
					}
				}
			}
		}
	}
	frozen := map[string]bool{}
	// predicates handed to sort.Search by a selected function index through their helpers
	inContext := map[string]bool{}
	for f := range reach {
		for _, ci := range callsDirect(f, "sort.Search") {
			if mc, ok := ci.Common().Args[1].(*ssa.MakeClosure); ok {
				g, bound := p.closureTarget(mc)
				if g == nil {
					continue
				}
				if bound {
					// a method value: analysed at the sort.Search site, in the
					// caller's context (boundsCfg), when that is its only use
					if f.Pkg == g.Pkg && onlyUse(p, g, mc) {
						inContext[funcKey(g)] = true
					}
					continue
				}
				sel[funcKey(g)] = true
				frozen[funcKey(g)] = true
			}
		}
	}
	for n := range inContext {
		delete(sel, n)
	}
	for _, n := range boundsSet {
		if p.Func(n) != nil {
			sel[n] = true
			frozen[n] = true
		}
	}
	// small helpers whose every caller is itself selected are analysed inlined
	// into those callers (with the callers' facts), not on their own
	covered := map[string]bool{}
	for n := range sel {
		covered[n] = true
	}
	for n := range inContext {
		covered[n] = true
	}
	for changed := true; changed; {
		changed = false
		for n := range sel {
			if frozen[n] {
				continue
			}
			f := p.Func(n)
			callers, allSel := 0, true
			for g, outs := range cg.edges {
				if !reach[g] {
					continue // callers outside the read paths (the writer) do not handle table bytes
				}
				for _, o := range outs {
					if o == f && g != f {
						callers++
						if !covered[funcKey(g)] {
							allSel = false
						}
					}
				}
			}
			if callers > 0 && allSel {
				delete(sel, n)
				changed = true
			}
		}
	}
	var res []string
	for n := range sel {
		res = append(res, n)
	}
	sort.Strings(res)
	boundsFrozen, boundsInContext, boundsReach, boundsCG = frozen, inContext, reach, cg
	return res
}

// set by boundsFunctions for the driver: the reference functions (always
// analysed on their own), the method-value predicates analysed at their
// sort.Search site, the read-path reachability and the call graph
var (
	boundsFrozen, boundsInContext map[string]bool
	boundsReach                   map[*ssa.Function]bool
	boundsCG                      *callGraph
)

// onlyUse: the method g is referred to nowhere but in the method value mc.
func onlyUse(p *Program, g *ssa.Function, mc *ssa.MakeClosure) bool {
	for _, f := range p.Funcs {
		for _, b := range f.Blocks {
			for _, ins := range b.Instrs {
				if m, ok := ins.(*ssa.MakeClosure); ok {
					if t, _ := p.closureTarget(m); t == g && m != mc {
						return false
					}
					continue
				}
				for _, op := range ins.Operands(nil) {
					if *op == ssa.Value(g) {
						return false
					}
				}
			}
		}
	}
	// calls through an interface are not method values of this kind
	return true
}

func checkBounds(p *Program, r *Report) {
	total, okN := 0, 0
	if os.Getenv("RSA_DEBUG") == "22" {
		for _, l := range nonByteIndexing(p) {
			fmt.Fprintln(os.Stderr, l)
		}
	}
	work := boundsFunctions(p)
	done := map[string]bool{}
	level := map[string]int{}
	for wi := 0; wi < len(work); wi++ {
		name := work[wi]
		if done[name] {
			continue
		}
		done[name] = true
		fn := p.MustFunc(name)
		bc := &boundsClient{r: r, fn: name, cands: nil, dropped: map[string]map[string]bool{}, arrLen: map[string]int64{}}
		for iter := 0; iter < 8; iter++ {
			if iter == 7 {
				// the candidate set did not settle: nothing is assumed in the last round
				for id, cs := range bc.cands {
					for _, c := range cs {
						if bc.dropped[id] == nil {
							bc.dropped[id] = map[string]bool{}
						}
						bc.dropped[id][c.key] = true
					}
				}
				for id, cs := range bc.cands {
					var keep []invCand
					for _, c := range cs {
						if !c.le {
							keep = append(keep, c)
						}
					}
					bc.cands[id] = keep
				}
			}
			bc.oblOK, bc.oblBad, bc.oblPos = map[string]bool{}, map[string]string{}, map[string]token.Pos{}
			bc.changed = false
			bc.simClient = simClient{p: p, cfg: boundsCfg(bc)}
			x := newExec(p, bc)
			x.StrictConv = true
			x.HavocSlicePhis = true
			if bc.cands == nil {
				bc.cands = candidateInvariants(fn, x)
			}
			st := newState(&simGhost{flags: map[string]*Term{}})
			var args []*Term
			for _, pa := range fn.Params {
				args = append(args, mk("param", funcKey(fn)+"."+pa.Name(), pa.Type()))
			}
			var free []*Term
			for _, fv := range fn.FreeVars {
				free = append(free, mk("free", funcKey(fn)+"."+fv.Name(), fv.Type()))
			}
			boundsPreconditions(bc, fn, st, args, free)
			results := x.RunFunc(fn, args, free, st, "", 0)
			if !bc.changed {
				// contract of the record.decode implementations, assumed at the
				// interface call in blockIter.Next: ok => 0 <= n <= len(buf)
				if fn.Name() == "decode" && fn.Signature.Recv() != nil && fn.Signature.Results().Len() == 2 {
					key := name + " / contract: ok => 0 <= n <= len(buf)"
					good := true
					for _, res := range results {
						if res.Panic || res.St.truth(res.Vals[1]) == 0 {
							continue
						}
						n := bc.lin(res.St, res.Vals[0])
						l := bc.linLen(res.St, args[1])
						// n = len(buf) - len(rest): n <= len(buf) because the length of the
						// (valid, see the slice obligations) rest is not negative
						upper := false
						if v := res.Vals[0]; v.Op == "bin" && v.Aux == "-" && v.Args[0].Op == "len" && v.Args[0].Args[0] == args[1] && v.Args[1].Op == "len" {
							upper = true
						}
						if !upper {
							upper = bc.prove(res.St, n.add(l, -1))
						}
						if !bc.prove(res.St, newLin().add(n, -1)) || !upper {
							good = false
							if os.Getenv("RSA_DEBUG") == "11" {
								fmt.Fprintf(os.Stderr, "CONTRACT %s: n=%s  val=%s upper=%v\n", name, n, res.Vals[0].key, upper)
								for _, f := range bc.factForms(res.St) {
									fmt.Fprintf(os.Stderr, "   fact %s\n", f)
								}
							}
						}
					}
					if good {
						bc.oblOK[key] = true
					} else {
						bc.oblBad[key] = "a successful return can report a consumed length outside [0, len(buf)]"
						bc.oblPos[key] = fn.Pos()
					}
				}
				break
			}
		}
		if len(bc.oblBad) > 0 && !boundsFrozen[name] && level[name] < 2 && !boundsCfg(&boundsClient{fn: "-"}).Opaque[name] {
			// a helper that is not in range for arbitrary arguments is decided
			// in the context of each of its callers on the read paths instead
			// (they are analysed with the helper inlined); its obligations then
			// appear under the callers
			var callers []string
			for g, outs := range boundsCG.edges {
				if !boundsReach[g] || g == fn {
					continue
				}
				for _, o := range outs {
					if o == fn {
						callers = append(callers, funcKey(g))
					}
				}
			}
			sort.Strings(callers)
			if len(callers) > 0 {
				for _, c := range callers {
					if !done[c] && !boundsInContext[c] && p.Func(c) != nil {
						level[c] = level[name] + 1
						work = append(work, c)
					}
				}
				r.ok("BOUNDS", name+" => analysed in the context of its callers", "not in range for arbitrary arguments; decided under "+strings.Join(callers, ", "))
				continue
			}
		}
		var keys []string
		for k := range bc.oblOK {
			keys = append(keys, k)
		}
		for k := range bc.oblBad {
			keys = append(keys, k)
		}
		sort.Strings(keys)
		for _, k := range keys {
			total++
			if why, bad := bc.oblBad[k]; bad {
				r.violate("BOUNDS", name+" => "+k, p.pos(bc.oblPos[k]), "an index, slice bound or allocation size computed from table bytes is not shown to be in range on every path ("+why+"): damaged input may panic or allocate without bound", nil)
			} else {
				okN++
				r.ok("BOUNDS", name+" => "+k, "discharged from the path's linear facts")
			}
		}
	}
	r.floor("BOUNDS", total, 60, "bounds obligations in the decoder set")
	r.Stats["bounds.obligations"] = total
	r.Stats["bounds.discharged"] = okN
}

// checkInflateBounded: whatever is read from a zlib reader on a read path is
// read through io.LimitReader / io.CopyN, so a hostile deflate stream cannot
// make the reader allocate far beyond the declared block length.
func checkInflateBounded(p *Program, r *Report, reach map[*ssa.Function]bool) {
	n := 0
	for f := range reach {
		for _, ci := range callsDirect(f, "compress/zlib.NewReader") {
			n++
			res := ci.Value()
			key := funcKey(f) + " / inflated data is read through a limit"
			bad := ""
			var users []ssa.Instruction
			for _, ref := range *res.Referrers() {
				if ex, ok := ref.(*ssa.Extract); ok && ex.Index == 0 {
					users = append(users, *ex.Referrers()...)
				}
			}
			for len(users) > 0 {
				u := users[0]
				users = users[1:]
				switch v := u.(type) {
				case *ssa.MakeInterface:
					users = append(users, *v.Referrers()...)
				case *ssa.ChangeInterface:
					users = append(users, *v.Referrers()...)
				case ssa.CallInstruction:
					name := ""
					if cal := v.Common().StaticCallee(); cal != nil {
						name = funcKey(cal)
					} else if v.Common().IsInvoke() {
						name = v.Common().Method.Name()
					}
					switch name {
					case "io.LimitReader", "io.CopyN", "Close":
					default:
						bad = name
					}
				}
			}
			if bad != "" {
				r.violate("INFLATE-BOUNDED", key, p.pos(ci.Pos()), "the zlib stream of a log block is consumed by "+bad+" without a limit: a small hostile block can inflate without bound", nil)
			} else {
				r.ok("INFLATE-BOUNDED", key, "consumed only through io.LimitReader / io.CopyN")
			}
		}
	}
	r.floor("INFLATE-BOUNDED", n, 1, "zlib readers on read paths")
}

func boundsCfg(bc *boundsClient) *simCfg {
	cfg := boundsCfg0(bc)
	// functions of the set are analysed on their own; elsewhere only their
	// results matter (decodeKey and getVarInt are inlined for their
	// postconditions)
	for _, n := range []string{"(*blockIter).Next", "decodeRestartKey", "newBlockReader", "(*Reader).newBlockReader", "(*blockReader).seek", "(*blockIter).seek"} {
		if n != bc.fn {
			cfg.Opaque[n] = true
		}
	}
	return cfg
}

func boundsCfg0(bc *boundsClient) *simCfg {
	return &simCfg{
		NoLoopSamples: true,
		Pure: map[string]bool{"(HashID).Size": true, "bytes.Compare": true, "hash/crc32.ChecksumIEEE": true, "isBlockType": true,
			"(encoding/binary.bigEndian).Uint16": true, "(encoding/binary.bigEndian).Uint64": true, "(encoding/binary.bigEndian).Uint32": true,
			"method:(BlockSource).Size": true, "revInt64": true, "method:(record).key": true, "(*objRecord).key": true},
		Opaque: map[string]bool{"fmt.Errorf": true, "log.Panicf": true, "compress/zlib.NewReader": true, "io.Copy": true, "io.CopyN": true, "io.LimitReader": true,
			"encoding/binary.Read": true, "newRecord": true, "(*Reader).seek": true, "(*tableIter).Next": true, "(*Reader).refsForLinear": true,
			"(*indexedTableRefIter).nextBlock": true, "bytes.NewBuffer": true},
		Model: func(c *simClient, x *Exec, st *State, fr *Frame, site ssa.CallInstruction, name string, callee *ssa.Function, fnTerm *Term, args []*Term) (bool, []CallOut) {
			switch name {
			case "(*bytes.Buffer).Len":
				return true, []CallOut{{St: st, Val: mk("len", "", types.Typ[types.Int], mk("bufbytes", "", nil, args[0], memSnap(st, args[0])))}}
			case "(*bytes.Buffer).Bytes":
				return true, []CallOut{{St: st, Val: mk("bufbytes", "", nil, args[0], memSnap(st, args[0]))}}
			case "method:(record).decode":
				// contract of record.decode, verified on each implementation below:
				// ok => 0 <= n <= len(buf)
				res := x.opaqueResult(fr, site, callee, fnTerm, args)
				n, ok := res.Args[0], res.Args[1]
				x.havocArgs(st, fr, site, callee, args)
				s2 := st.clone()
				st.setFact(ok, true)
				st.setFact(tLt(n, tConst("0", nil)), false)
				st.setFact(tLt(mk("len", "", types.Typ[types.Int], args[1]), n), false)
				s2.setFact(ok, false)
				return true, []CallOut{{St: st, Val: res}, {St: s2, Val: res}}
			case "sort.Search":
				// 0 <= result <= n
				res := x.opaqueResult(fr, site, callee, fnTerm, args)
				if cl := args[1]; cl.Op == "closure" && strings.HasPrefix(cl.Aux, "bound:") && len(cl.Args) == 1 {
					// a method value as predicate: sort.Search(n, f) calls f(i) with
					// 0 <= i < n, so the method is analysed here, in the caller's
					// context, with such an i; what it writes to its receiver is
					// unknown afterwards
					if pf := x.P.Func(strings.TrimPrefix(cl.Aux, "bound:")); pf != nil {
						i := x.fresh("unk", fr, "i."+siteID(fr, site), types.Typ[types.Int])
						s2 := st.clone()
						s2.setFact(tLt(i, tConst("0", nil)), false)
						s2.setFact(tLt(i, args[0]), true)
						s2.note(site.Pos(), "sort.Search calls the predicate with 0 <= i < n")
						x.inline(fr.clone(), s2, site, pf, mk("func", funcKey(pf), nil), []*Term{cl.Args[0], i})
					}
					if addressLike(cl.Args[0]) {
						x.havoc(st, cl.Args[0], mk("site", fr.ctx+"/"+siteID(fr, site), nil, x.curMark()))
					}
				}
				st.setFact(tLt(res, tConst("0", nil)), false)
				st.setFact(tLt(args[0], res), false)
				return true, []CallOut{{St: st, Val: res}}
			case "(*os.File).ReadAt":
				// 0 <= n <= len(b)
				res := x.opaqueResult(fr, site, callee, fnTerm, args)
				n := res.Args[0]
				st.setFact(tLt(n, tConst("0", nil)), false)
				st.setFact(tLt(mk("len", "", types.Typ[types.Int], args[1]), n), false)
				return true, []CallOut{{St: st, Val: res}}
			}
			return false, nil
		},
	}
}

// boundsPreconditions: assumptions under which a function of the set is
// analysed (documented in DESIGN §3.6; each is a fact about its callers).
func boundsPreconditions(bc *boundsClient, fn *ssa.Function, st *State, args, free []*Term) {
	for i, pa := range fn.Params {
		if pa.Name() == "hashSize" {
			// the hash size of a table is 20 or 32 (HashID.Size of a validated id)
			st.setFact(tLt(args[i], tConst("1", nil)), false)
			st.setFact(tLt(tConst("64", nil), args[i]), false)
		}
	}
	isSearchPred := false
	if fn.Parent() != nil {
		for _, ci := range callsDirect(fn.Parent(), "sort.Search") {
			if mc, ok := ci.Common().Args[1].(*ssa.MakeClosure); ok && mc.Fn == ssa.Value(fn) && fn.Synthetic == "" {
				isSearchPred = true
			}
		}
	}
	switch {
	case isSearchPred:
		// sort.Search(n, f) calls f(i) with 0 <= i < n
		i := args[0]
		st.setFact(tLt(i, tConst("0", nil)), false)
		for _, fv := range free {
			if strings.HasSuffix(fv.Aux, ".br") {
				br := mk("init", "", nil, fv)
				cnt := mk("init", "", types.Typ[types.Uint16], mk("field", "blockReader.restartCount", nil, br))
				st.setFact(tLt(i, cnt), true)
				bc.fieldInvariants(st, br)
			}
		}
	}
	if recv := fn.Signature.Recv(); recv != nil && len(args) > 0 {
		rt := recv.Type().String()
		switch {
		case strings.Contains(rt, "blockReader"):
			bc.fieldInvariants(st, args[0])
		case strings.Contains(rt, "blockIter"):
			bc.fieldInvariants(st, mk("init", "", nil, mk("field", "blockIter.br", nil, args[0])))
		case strings.HasSuffix(rt, ".Reader"):
			bc.readerInvariants(st, args[0])
		}
	}
	if funcKey(fn) == "(*fileBlockSource).ReadBlock" || funcKey(fn) == "(*ByteBlockSource).ReadBlock" {
		// callers request at most a 24-bit block length (Reader.getBlock) or a fixed header/footer size
		st.setFact(tLt(args[2], tConst("0", nil)), false)
		st.setFact(tLt(tConst("16777216", nil), args[2]), false)
	}
}

// fieldInvariants of blockReader, established by newBlockReader (its only
// constructor): len(restartBytes) = 3*restartCount + 2.
func (bc *boundsClient) readerInvariants(st *State, r *Term) {
	// Reader.objectIDLen = footer value & 31 (NewReader); Reader.hashSize = HashID.Size()
	ol := mk("init", "", types.Typ[types.Int], mk("field", "Reader.objectIDLen", nil, r))
	st.setFact(tLt(ol, tConst("0", nil)), false)
	st.setFact(tLt(tConst("31", nil), ol), false)
}

func (bc *boundsClient) fieldInvariants(st *State, br *Term) {
	// len(block) >= headerOff + 4 and len(block) < 2^24 (u24 block length), see newBlockReader
	blk := mk("len", "", types.Typ[types.Int], mk("init", "", nil, mk("field", "blockReader.block", nil, br)))
	ho := mk("init", "", types.Typ[types.Uint32], mk("field", "blockReader.headerOff", nil, br))
	st.setFact(tLt(blk, mk("bin", "+", types.Typ[types.Uint32], ho, tConst("4", nil))), false)
	st.setFact(tLt(blk, tConst("16777216", nil)), true)
	hs := mk("init", "", types.Typ[types.Int], mk("field", "blockReader.hashSize", nil, br))
	st.setFact(tLt(hs, tConst("1", nil)), false)
	st.setFact(tLt(tConst("64", nil), hs), false)
	rb := mk("len", "", types.Typ[types.Int], mk("init", "", nil, mk("field", "blockReader.restartBytes", nil, br)))
	cnt := mk("init", "", types.Typ[types.Uint16], mk("field", "blockReader.restartCount", nil, br))
	three := mk("bin", "*", types.Typ[types.Int], tConst("3", nil), cnt)
	want := mk("bin", "+", types.Typ[types.Int], three, tConst("2", nil))
	st.setFact(tEq(rb, want), true)
}

// provedLt: a < b follows from the path's order facts by linear reasoning
// (the bounds engine's prover over the same fact representation).
func provedLt(st *State, a, b *Term) bool {
	if st.truth(tLt(a, b)) == 1 {
		return true
	}
	bc := &boundsClient{arrLen: map[string]int64{}, dropped: map[string]map[string]bool{}}
	goal := bc.lin(st, a).add(bc.lin(st, b), -1)
	goal.c++ // a - b + 1 <= 0
	return bc.prove(st, goal)
}

// provedLe: a <= b.
func provedLe(st *State, a, b *Term) bool {
	if st.truth(tLt(b, a)) == 0 {
		return true
	}
	bc := &boundsClient{arrLen: map[string]int64{}, dropped: map[string]map[string]bool{}}
	return bc.prove(st, bc.lin(st, a).add(bc.lin(st, b), -1))
}

// INFLATE-SLACK: a log block's on-disk length is learned from how many bytes
// the zlib reader consumed, and the stream's trailer is consumed only when the
// reader is asked for data beyond the last byte of payload.  The limit put on
// the inflated data must therefore not be tighter than the total the function
// later requires the output buffer to have reached (which includes the bytes
// copied before inflating): limit >= required total, proved from the path.
func checkInflateSlack(p *Program, r *Report, reach map[*ssa.Function]bool) {
	n := 0
	var fns []*ssa.Function
	for f := range reach {
		if len(callsDirect(f, "compress/zlib.NewReader")) > 0 {
			fns = append(fns, f)
		}
	}
	sort.Slice(fns, func(i, j int) bool { return funcKey(fns[i]) < funcKey(fns[j]) })
	for _, fn := range fns {
		name := funcKey(fn)
		bc := &boundsClient{r: r, fn: name, dropped: map[string]map[string]bool{}, arrLen: map[string]int64{},
			oblOK: map[string]bool{}, oblBad: map[string]string{}, oblPos: map[string]token.Pos{}}
		cfg := boundsCfg(bc)
		orig := cfg.Model
		cfg.Model = func(c *simClient, x *Exec, st *State, fr *Frame, site ssa.CallInstruction, nm string, callee *ssa.Function, fnTerm *Term, args []*Term) (bool, []CallOut) {
			if nm == "io.LimitReader" && len(args) == 2 {
				c.g(st).flags["inflate.limit"] = args[1]
			}
			return orig(c, x, st, fr, site, nm, callee, fnTerm, args)
		}
		bc.simClient = simClient{p: p, cfg: cfg}
		x := newExec(p, bc)
		x.StrictConv = true
		x.HavocSlicePhis = true
		st := newState(&simGhost{flags: map[string]*Term{}})
		var args []*Term
		for _, pa := range fn.Params {
			args = append(args, mk("param", funcKey(fn)+"."+pa.Name(), pa.Type()))
		}
		boundsPreconditions(bc, fn, st, args, nil)
		key := name + " / the inflate limit leaves room to reach the end of the stream"
		bad := ""
		for _, res := range x.RunFunc(fn, args, nil, st, "", 0) {
			if res.Panic || len(res.Vals) == 0 || res.Vals[0].isNilConst() {
				continue
			}
			lim := bc.g(res.St).flags["inflate.limit"]
			if lim == nil {
				continue
			}
			for _, k := range sortedFactKeys(res.St) {
				t := res.St.fterm[k]
				if t.Op != "eq" || !res.St.facts[k] || len(t.Args) != 2 {
					continue
				}
				var total *Term
				for i := 0; i < 2; i++ {
					if a := t.Args[i]; a.Op == "len" && a.Args[0].Op == "bufbytes" {
						total = t.Args[1-i]
					}
				}
				if total == nil {
					continue
				}
				n++
				if !provedLe(res.St, total, lim) {
					bad = "the inflated data is limited to " + lim.String() + " although the output must reach " + total.String() + " bytes in total"
				}
			}
		}
		if bad != "" {
			r.violate("INFLATE-SLACK", key, p.pos(fn.Pos()), bad+": with the limit equal to the exact payload the zlib reader may never be asked past its last byte, the stream's trailer then stays unread and the block's on-disk length comes out short (the next block is looked for inside this one)", nil)
		} else if n > 0 {
			r.ok("INFLATE-SLACK", key, "limit >= total required of the output on every successful path")
		}
	}
	r.floor("INFLATE-SLACK", n, 1, "successful inflate paths relating the limit to the required total")
}

// nonByteIndexing lists the index and slice expressions over other element
// types than bytes in the functions reachable from the read API (RSA_DEBUG=22).
func nonByteIndexing(p *Program) []string {
	cg := buildCallGraph(p)
	reach := cg.reachable(hostileRoots(p, cg))
	var res []string
	for f := range reach {
		for _, b := range f.Blocks {
			for _, ins := range b.Instrs {
				var x ssa.Value
				switch v := ins.(type) {
				case *ssa.IndexAddr:
					x = v.X
				case *ssa.Index:
					x = v.X
				case *ssa.Slice:
					x = v.X
				}
				if x == nil {
					continue
				}
				t := x.Type().Underlying()
				if pt, ok := t.(*types.Pointer); ok {
					t = pt.Elem().Underlying()
				}
				isB := false
				switch u := t.(type) {
				case *types.Slice:
					if bt, ok := u.Elem().Underlying().(*types.Basic); ok && bt.Kind() == types.Uint8 {
						isB = true
					}
				case *types.Array:
					if bt, ok := u.Elem().Underlying().(*types.Basic); ok && bt.Kind() == types.Uint8 {
						isB = true
					}
				case *types.Basic:
					isB = true
				}
				if !isB {
					res = append(res, fmt.Sprintf("%s %s: %s over %s", p.pos(ins.Pos()), funcKey(f), ins.String(), x.Type()))
				}
			}
		}
	}
	sort.Strings(res)
	return res
}
