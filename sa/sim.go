package main

import (
	"go/token"
	"sort"
	"strings"

	"golang.org/x/tools/go/ssa"
)

// sim: a generic pathsim client used by the decision-table, dataflow and
// typestate rules outside the file protocol.  Calls are inlined, kept as
// canonical pure terms (so that two evaluations of a.rec.key() are the same
// atom), kept as unique opaque results, or recorded as events.

type simGhost struct {
	events []*Term
	flags  map[string]*Term
}

func (g *simGhost) Clone() Ghost {
	n := &simGhost{events: append([]*Term(nil), g.events...), flags: make(map[string]*Term, len(g.flags))}
	for k, v := range g.flags {
		n.flags[k] = v
	}
	return n
}

func (g *simGhost) Key() string {
	var ks []string
	for _, e := range g.events {
		ks = append(ks, e.key)
	}
	var fs []string
	for k, v := range g.flags {
		fs = append(fs, k+"="+v.key)
	}
	sort.Strings(fs)
	return strings.Join(ks, ";") + "|" + strings.Join(fs, ";")
}

func (g *simGhost) Subst(from, to *Term) Ghost {
	n := &simGhost{flags: make(map[string]*Term, len(g.flags))}
	for _, e := range g.events {
		n.events = append(n.events, e.subst(from, to))
	}
	for k, v := range g.flags {
		n.flags[k] = v.subst(from, to)
	}
	return n
}

// Join: the head of a loop keeps the events that happened before the loop;
// per-iteration events are observed at the back edge (OnBackEdge).
func (g *simGhost) Join(o Ghost) Ghost {
	b := o.(*simGhost)
	n := &simGhost{events: append([]*Term(nil), g.events...), flags: map[string]*Term{}}
	for k, v := range g.flags {
		if b.flags[k] == v {
			n.flags[k] = v
		}
	}
	return n
}

type simSample struct {
	Kind   string // "back" (loop iteration reached the back edge) or "ret"
	Loop   string // cur mark key for back samples
	St     *State
	Fr     *Frame
	Vals   []*Term
	Events []*Term // events of this iteration (back) or of the whole path (ret)
	Panic  bool
	// back samples: the state at the head of the iteration and the header's phi
	// values at the head / handed on by the back edge
	HeadSt             *State
	HeadVals, NextVals map[string]*Term
}

type simCfg struct {
	Opaque          map[string]bool // unique result, not inlined
	Pure            map[string]bool // canonical result term
	Event           map[string]bool // recorded as event (and treated as Opaque unless in Inline)
	Inline          map[string]bool // in-package functions to inline; if nil, all not otherwise listed
	NoInlineDefault bool
	// Model, if set, is asked first.
	Keep          map[string]bool // events whose pointer arguments are not havocked
	UniqueMake    bool
	NormSubslice  bool
	PreciseExits  bool
	FlagExits     bool // a back edge that decides the flag the header tests leaves the loop directly
	BackVals      bool // back samples carry the head state and the phi values (ranking-function rules)
	NoLoopSamples bool // only function exits are sampled
	Model         func(c *simClient, x *Exec, st *State, fr *Frame, site ssa.CallInstruction, name string, callee *ssa.Function, fnTerm *Term, args []*Term) (bool, []CallOut)
	OnStoreHook   func(c *simClient, x *Exec, st *State, fr *Frame, pos token.Pos, addr, val, old *Term)
}

type simClient struct {
	p       *Program
	cfg     *simCfg
	Samples []simSample
	headEv  map[string]int // loop cur key -> number of events at the head of the current round
}

func calleeName(callee *ssa.Function, fnTerm *Term) string {
	if callee != nil {
		return funcKey(callee)
	}
	if fnTerm.Op == "method" {
		return methodKey(fnTerm.Aux)
	}
	if fnTerm.Op == "builtin" {
		return "builtin:" + fnTerm.Aux
	}
	return "dynamic:" + fnTerm.String()
}

func (c *simClient) g(st *State) *simGhost { return st.ghost.(*simGhost) }

// memSnap summarises the tracked cells reachable from a pointer argument so
// that a pure call on the same object before and after a write differs.
func memSnap(st *State, ptr *Term) *Term {
	var ks []string
	if ep, ok := epochOf(st, ptr); ok {
		ks = append(ks, "epoch="+ep.key)
	}
	for k, cl := range st.mem {
		if strings.HasPrefix(k, "epoch:") {
			continue
		}
		if cl.addr != nil && cl.val != nil && cl.val.Op != "mapabs" && addrUnder(cl.addr, ptr) {
			ks = append(ks, cl.addr.key+"="+cl.val.key)
		}
	}
	sort.Strings(ks)
	return mk("snap", strings.Join(ks, ";"), nil)
}

func (c *simClient) Call(x *Exec, st *State, fr *Frame, site ssa.CallInstruction, callee *ssa.Function, fnTerm *Term, args []*Term) (bool, []CallOut) {
	name := calleeName(callee, fnTerm)
	if c.cfg.Model != nil {
		if h, outs := c.cfg.Model(c, x, st, fr, site, name, callee, fnTerm, args); h {
			return true, outs
		}
	}
	if c.cfg.Event[name] {
		siteT := mk("site", fr.ctx+"/"+siteID(fr, site), nil, x.curMark())
		ev := mk("ev", name, nil, append(append([]*Term{}, args...), siteT)...)
		c.g(st).events = append(c.g(st).events, ev)
		st.note(site.Pos(), "event: %s", ev)
		if c.cfg.Inline[name] {
			return false, nil
		}
		if !c.cfg.Keep[name] {
			x.havocArgs(st, fr, site, callee, args)
		}
		res := x.opaqueResult(fr, site, callee, fnTerm, args)
		if res != nil {
			c.g(st).events = append(c.g(st).events, mk("evret", name, nil, res))
		}
		return true, []CallOut{{St: st, Val: res}}
	}
	if c.cfg.Pure[name] {
		as := append([]*Term{}, args...)
		for _, a := range args {
			if addressLike(a) {
				as = append(as, memSnap(st, a))
			}
		}
		var typ = site.Value()
		t := mk("pcall", name, nil, as...)
		if typ != nil {
			t.Typ = typ.Type()
		}
		return true, []CallOut{{St: st, Val: t}}
	}
	return false, nil
}

func (c *simClient) Inline(callee *ssa.Function) bool {
	k := funcKey(callee)
	if c.cfg.Opaque[k] || (c.cfg.Event[k] && !c.cfg.Inline[k]) || c.cfg.Pure[k] {
		return false
	}
	if c.cfg.Inline != nil && c.cfg.Inline[k] {
		return true
	}
	return !c.cfg.NoInlineDefault
}

func (c *simClient) OnLoopExit(x *Exec, st *State, mark *Term, backs []*State, phiLists []*Term) {}
func (c *simClient) BeforeInline(x *Exec, st *State, fr *Frame, site ssa.CallInstruction, callee *ssa.Function, args []*Term) {
}
func (c *simClient) AfterInline(x *Exec, st *State, fr *Frame, site ssa.CallInstruction, callee *ssa.Function, args []*Term, val *Term) {
}
func (c *simClient) OnStore(x *Exec, st *State, fr *Frame, pos token.Pos, addr, val, old *Term) {
	if c.cfg.OnStoreHook != nil {
		c.cfg.OnStoreHook(c, x, st, fr, pos, addr, val, old)
	}
}

func (c *simClient) OnLoopLeave(x *Exec, st *State, fr *Frame, cur *Term, fromHeader bool) {
	if c.cfg.NoLoopSamples {
		return
	}
	k := "break"
	if fromHeader {
		k = "done"
	}
	c.Samples = append(c.Samples, simSample{Kind: k, Loop: cur.key, St: st.clone(), Fr: fr, Events: append([]*Term(nil), c.g(st).events...)})
}

func (c *simClient) OnBackEdge(x *Exec, st *State, fr *Frame, cur *Term) {
	if c.cfg.NoLoopSamples {
		return
	}
	c.Samples = append(c.Samples, simSample{Kind: "back", Loop: cur.key, St: st.clone(), Fr: fr, Events: append([]*Term(nil), c.g(st).events...)})
}

func (c *simClient) WantsBackEdgeVals() bool {
	return c.cfg != nil && c.cfg.BackVals && !c.cfg.NoLoopSamples
}

func (c *simClient) OnBackEdgeVals(x *Exec, st *State, fr *Frame, cur *Term, head *State, headVals, nextVals map[string]*Term) {
	if c.cfg.NoLoopSamples || len(c.Samples) == 0 {
		return
	}
	s := &c.Samples[len(c.Samples)-1]
	if s.Kind == "back" && s.Loop == cur.key {
		s.HeadSt, s.HeadVals, s.NextVals = head, headVals, nextVals
	}
}

// runSim simulates fn from its entry and returns all samples: one per loop
// iteration path reaching a back edge (all fixpoint rounds; later rounds
// subsume earlier ones) and one per function exit.
func runSim(p *Program, fn *ssa.Function, cfg *simCfg, args []*Term) (*simClient, *Exec) {
	c := &simClient{p: p, cfg: cfg}
	x := newExec(p, c)
	x.UniqueMake = cfg.UniqueMake
	x.NormSubslice = cfg.NormSubslice
	x.PreciseExits = cfg.PreciseExits
	x.FlagExits = cfg.FlagExits
	st := newState(&simGhost{flags: map[string]*Term{}})
	if args == nil {
		for _, pa := range fn.Params {
			args = append(args, mk("param", funcKey(fn)+"."+pa.Name(), pa.Type()))
		}
	}
	for _, r := range x.RunFunc(fn, args, nil, st, "", 0) {
		c.Samples = append(c.Samples, simSample{Kind: "ret", St: r.St, Vals: r.Vals, Events: c.g(r.St).events, Panic: r.Panic})
	}
	return c, x
}

// ---------------------------------------------------------------------------
// decision formulas over atoms

// Formula is a boolean combination of atom terms.
type Formula struct {
	Op   string // "atom", "not", "and", "or", "true", "false"
	Atom *Term
	Sub  []*Formula
}

func fAtom(t *Term) *Formula {
	neg := false
	for t.Op == "not" {
		t = t.Args[0]
		neg = !neg
	}
	var f *Formula
	switch t {
	case tTrue:
		f = &Formula{Op: "true"}
	case tFalse:
		f = &Formula{Op: "false"}
	default:
		f = &Formula{Op: "atom", Atom: t}
	}
	if neg {
		return fNot(f)
	}
	return f
}
func fNot(a *Formula) *Formula        { return &Formula{Op: "not", Sub: []*Formula{a}} }
func fAnd(as ...*Formula) *Formula    { return &Formula{Op: "and", Sub: as} }
func fOr(as ...*Formula) *Formula     { return &Formula{Op: "or", Sub: as} }
func fImplies(a, b *Formula) *Formula { return fOr(fNot(a), b) }

func (f *Formula) atoms(set map[string]*Term) {
	if f.Op == "atom" {
		set[f.Atom.key] = f.Atom
	}
	for _, s := range f.Sub {
		s.atoms(set)
	}
}

func (f *Formula) eval(v map[string]bool) bool {
	switch f.Op {
	case "true":
		return true
	case "false":
		return false
	case "atom":
		return v[f.Atom.key]
	case "not":
		return !f.Sub[0].eval(v)
	case "and":
		for _, s := range f.Sub {
			if !s.eval(v) {
				return false
			}
		}
		return true
	case "or":
		for _, s := range f.Sub {
			if s.eval(v) {
				return true
			}
		}
		return false
	}
	return false
}

// consistent applies the theory of strict orders and equality to one
// valuation of eq/lt atoms: for each pair (a,b) at most one of a<b, b<a,
// a==b holds and (when all three atoms are present) exactly one.
func consistent(atoms map[string]*Term, v map[string]bool) bool {
	if !transitiveOK(atoms, v) {
		return false
	}
	for _, t := range atoms {
		switch t.Op {
		case "lt":
			a, b := t.Args[0], t.Args[1]
			if v[t.key] {
				if r, ok := atoms[tLtRaw(b, a).key]; ok && v[r.key] {
					return false
				}
				if e, ok := atoms[tEq(a, b).key]; ok && v[e.key] {
					return false
				}
			} else {
				r, okr := atoms[tLtRaw(b, a).key]
				e, oke := atoms[tEq(a, b).key]
				if okr && oke && !v[r.key] && !v[e.key] {
					return false
				}
			}
			// unsigned / lengths: nothing is below zero
			if b.isConst() && b.Aux == "0" && v[t.key] && isUnsignedTerm(a) {
				return false
			}
			// ... so whatever an unsigned value is below is not zero
			if v[t.key] && isUnsignedTerm(a) && !b.isConst() {
				zero := tConst("0", nil)
				if e, ok := atoms[tEq(b, zero).key]; ok && v[e.key] {
					return false
				}
				if p, ok := atoms[tLtRaw(zero, b).key]; ok && !v[p.key] {
					return false
				}
			}
		}
	}
	return true
}

func tLtRaw(a, b *Term) *Term { return mk("lt", "", nil, a, b) }

func isUnsignedTerm(t *Term) bool {
	if t.Typ == nil {
		return false
	}
	s := t.Typ.Underlying().String()
	return strings.HasPrefix(s, "uint")
}

// implied reports whether every valuation of the formula's atoms that is
// consistent with the path facts and the order theory satisfies f; if not it
// returns a falsifying valuation rendered as text.
func implied(st *State, f *Formula) (bool, string) {
	set := map[string]*Term{}
	f.atoms(set)
	var keys []string
	for k := range set {
		keys = append(keys, k)
	}
	sort.Strings(keys)
	if len(keys) > 16 {
		fatalf("decision table with %d atoms", len(keys))
	}
	// sibling order atoms decided by the path take part in the theory check
	for _, k := range keys {
		t := set[k]
		if t.Op != "eq" && t.Op != "lt" {
			continue
		}
		a, b := t.Args[0], t.Args[1]
		for _, sib := range []*Term{tLtRaw(a, b), tLtRaw(b, a), tEq(a, b)} {
			if _, have := set[sib.key]; !have && sib.Op != "const" && st.truth(sib) >= 0 {
				set[sib.key] = sib
			}
		}
	}
	// order facts of the path between operands of the formula's atoms take part
	// too (they can close a chain a < b < c that decides an atom about a and c)
	operands := map[string]bool{}
	for _, k := range keys {
		if t := set[k]; (t.Op == "lt" || t.Op == "eq") && len(t.Args) == 2 {
			operands[t.Args[0].key], operands[t.Args[1].key] = true, true
		}
	}
	for _, k := range sortedFactKeys(st) {
		t := st.fterm[k]
		if t == nil || t.Op != "lt" || len(t.Args) != 2 || len(set) >= 16 {
			continue
		}
		if _, have := set[t.key]; !have && operands[t.Args[0].key] && operands[t.Args[1].key] {
			set[t.key] = t
		}
	}
	keys = keys[:0]
	for k := range set {
		keys = append(keys, k)
	}
	sort.Strings(keys)
	fixed := map[string]bool{}
	var free []string
	for _, k := range keys {
		switch st.truth(set[k]) {
		case 1:
			fixed[k] = true
		case 0:
			fixed[k] = false
		default:
			free = append(free, k)
		}
	}
	for m := 0; m < 1<<uint(len(free)); m++ {
		v := map[string]bool{}
		for k, b := range fixed {
			v[k] = b
		}
		for i, k := range free {
			v[k] = m&(1<<uint(i)) != 0
		}
		if !consistent(set, v) {
			continue
		}
		if !f.eval(v) {
			var parts []string
			for _, k := range keys {
				s := set[k].String()
				if !v[k] {
					s = "!(" + s + ")"
				}
				parts = append(parts, s)
			}
			return false, strings.Join(parts, " ∧ ")
		}
	}
	return true, ""
}

// transitiveOK: the atoms valued true/false admit a strict order: the
// transitive closure of the true lt atoms (with true eq atoms merging their
// sides) has no cycle and contradicts no atom valued false.
func transitiveOK(atoms map[string]*Term, v map[string]bool) bool {
	nLt := 0
	for _, t := range atoms {
		if t.Op == "lt" && v[t.key] {
			nLt++
		}
	}
	if nLt < 2 {
		return true
	}
	// union-find over term keys for true equalities
	parent := map[string]string{}
	var find func(string) string
	find = func(k string) string {
		p, ok := parent[k]
		if !ok || p == k {
			parent[k] = k
			return k
		}
		r := find(p)
		parent[k] = r
		return r
	}
	for _, t := range atoms {
		if t.Op == "eq" && v[t.key] && len(t.Args) == 2 {
			a, b := find(t.Args[0].key), find(t.Args[1].key)
			if a != b {
				parent[a] = b
			}
		}
	}
	less := map[string]map[string]bool{}
	nodes := map[string]bool{}
	for _, t := range atoms {
		if t.Op == "lt" && v[t.key] {
			a, b := find(t.Args[0].key), find(t.Args[1].key)
			if less[a] == nil {
				less[a] = map[string]bool{}
			}
			less[a][b] = true
			nodes[a], nodes[b] = true, true
		}
	}
	var ns []string
	for n := range nodes {
		ns = append(ns, n)
	}
	sort.Strings(ns)
	for _, k := range ns {
		for _, i := range ns {
			if !less[i][k] {
				continue
			}
			for _, j := range ns {
				if less[k][j] {
					if less[i] == nil {
						less[i] = map[string]bool{}
					}
					less[i][j] = true
				}
			}
		}
	}
	for _, n := range ns {
		if less[n][n] {
			return false
		}
	}
	for _, t := range atoms {
		if len(t.Args) != 2 {
			continue
		}
		a, b := find(t.Args[0].key), find(t.Args[1].key)
		switch {
		case t.Op == "lt" && !v[t.key]:
			if less[a][b] {
				return false
			}
		case t.Op == "eq" && v[t.key]:
			if less[a][b] || less[b][a] {
				return false
			}
		}
	}
	return true
}
