package main

import (
	"encoding/json"
	"fmt"
	"go/ast"
	"go/constant"
	"go/token"
	"go/types"
	"io"
	"os/exec"
	"path/filepath"
	"regexp"
	"sort"
	"strconv"
	"strings"

	"golang.org/x/tools/go/ssa"
)

// layout: constants and byte layouts of the format, extracted from the Go
// sources (types, constant evaluation, partial evaluation, SSA patterns),
// from the C sources (clang -E -dM and clang's JSON AST, parsed only), and a
// frozen table transcribed from the reftable format description.

type layoutTable map[string]string

// specLayout is the format specification (DESIGN Appendix A.3).
var specLayout = layoutTable{
	"block.type.ref":      "114",
	"block.type.log":      "103",
	"block.type.index":    "105",
	"block.type.obj":      "111",
	"max_restarts":        "65535",
	"default_block_size":  "4096",
	"header_size.v1":      "24",
	"header_size.v2":      "28",
	"footer_size.v1":      "68",
	"footer_size.v2":      "72",
	"magic":               "REFT",
	"header.layout":       "0:magic:4,4:version:1,5:block_size:3,8:min_update_index:8,16:max_update_index:8,24:hash_id:4",
	"footer.fields":       "ref_index,obj,obj_index,log,log_index",
	"footer.obj_id_bits":  "5",
	"footer.crc":          "crc32-ieee",
	"hash.sha1":           "sha1",
	"hash.sha256":         "s256",
	"hash.sha1.size":      "20",
	"hash.sha256.size":    "32",
	"restart.entry_width": "3",
	"restart.count_width": "2",
	"block.len_width":     "3",
	"stack.list":          "tables.list",
	"stack.lock_suffix":   ".lock",
	"stack.table_suffix":  ".ref",
	"stack.name_format":   "0x%012x-0x%012x-%08x",
}

func normOffsetName(s string) string {
	l := strings.ToLower(s)
	idx := strings.Contains(l, "index")
	switch {
	case strings.Contains(l, "ref") && idx:
		return "ref_index"
	case strings.Contains(l, "obj") && idx:
		return "obj_index"
	case strings.Contains(l, "log") && idx:
		return "log_index"
	case strings.Contains(l, "obj"):
		return "obj"
	case strings.Contains(l, "log"):
		return "log"
	case strings.Contains(l, "ref"):
		return "ref"
	}
	return l
}

func constOf(p *Program, name string) (string, bool) {
	o := p.Main.Types.Scope().Lookup(name)
	c, ok := o.(*types.Const)
	if !ok {
		return "", false
	}
	if v, ok := constant.Int64Val(constant.ToInt(c.Val())); ok {
		return strconv.FormatInt(v, 10), true
	}
	return c.Val().ExactString(), true
}

// evalConstFunc partially evaluates an in-package func(int) int for a constant argument.
func evalConstFunc(p *Program, name string, arg int) (string, bool) {
	f := p.Func(name)
	if f == nil {
		return "", false
	}
	c, _ := runSim(p, f, &simCfg{NoInlineDefault: true, NoLoopSamples: true}, []*Term{tConst(strconv.Itoa(arg), nil)})
	val := ""
	for _, s := range c.Samples {
		if s.Kind != "ret" || s.Panic || len(s.Vals) != 1 || !s.Vals[0].isConst() {
			return "", false
		}
		if val != "" && val != s.Vals[0].Aux {
			return "", false
		}
		val = s.Vals[0].Aux
	}
	return val, val != ""
}

func sizeofType(t types.Type) int64 {
	switch u := t.Underlying().(type) {
	case *types.Basic:
		switch u.Kind() {
		case types.Uint8, types.Int8:
			return 1
		case types.Uint16, types.Int16:
			return 2
		case types.Uint32, types.Int32:
			return 4
		case types.Uint64, types.Int64:
			return 8
		}
	case *types.Array:
		return u.Len() * sizeofType(u.Elem())
	case *types.Struct:
		var n int64
		for i := 0; i < u.NumFields(); i++ {
			n += sizeofType(u.Field(i).Type())
		}
		return n
	}
	return -1 << 40
}

// byteArrayVar evaluates a package-level [N]byte variable initialised by a composite literal.
func byteArrayVar(p *Program, name string) (string, bool) {
	for _, f := range p.Main.Syntax {
		for _, d := range f.Decls {
			gd, ok := d.(*ast.GenDecl)
			if !ok || gd.Tok != token.VAR {
				continue
			}
			for _, sp := range gd.Specs {
				vs := sp.(*ast.ValueSpec)
				for i, n := range vs.Names {
					if n.Name != name || i >= len(vs.Values) {
						continue
					}
					var lit *ast.CompositeLit
					ast.Inspect(vs.Values[i], func(nd ast.Node) bool {
						if cl, ok := nd.(*ast.CompositeLit); ok && lit == nil && len(cl.Elts) > 0 {
							if _, isKV := cl.Elts[0].(*ast.KeyValueExpr); !isKV {
								if _, inner := cl.Elts[0].(*ast.CompositeLit); !inner {
									lit = cl
								}
							}
						}
						return true
					})
					if lit == nil {
						return "", false
					}
					var b []byte
					for _, e := range lit.Elts {
						tv, ok := p.Main.TypesInfo.Types[e]
						if !ok || tv.Value == nil {
							return "", false
						}
						v, _ := constant.Int64Val(constant.ToInt(tv.Value))
						b = append(b, byte(v))
					}
					return string(b), true
				}
			}
		}
	}
	return "", false
}

// stringLits collects all string literals of the package (constant string expressions).
func stringLits(p *Program) map[string]bool {
	res := map[string]bool{}
	for _, f := range p.Main.Syntax {
		ast.Inspect(f, func(n ast.Node) bool {
			if bl, ok := n.(*ast.BasicLit); ok && bl.Kind == token.STRING {
				if s, err := strconv.Unquote(bl.Value); err == nil {
					res[s] = true
				}
			}
			return true
		})
	}
	return res
}

func goLayout(p *Program) layoutTable {
	t := layoutTable{}
	for k, n := range map[string]string{"block.type.ref": "blockTypeRef", "block.type.log": "blockTypeLog", "block.type.index": "blockTypeIndex", "block.type.obj": "blockTypeObj",
		"max_restarts": "maxRestarts", "default_block_size": "defaultBlockSize"} {
		if v, ok := constOf(p, n); ok {
			t[k] = v
		}
	}
	for _, v := range []int{1, 2} {
		if s, ok := evalConstFunc(p, "headerSize", v); ok {
			t[fmt.Sprintf("header_size.v%d", v)] = s
		}
		if s, ok := evalConstFunc(p, "footerSize", v); ok {
			t[fmt.Sprintf("footer_size.v%d", v)] = s
		}
	}
	if m, ok := byteArrayVar(p, "magic"); ok {
		t["magic"] = m
	}
	if m, ok := byteArrayVar(p, "SHA1ID"); ok {
		t["hash.sha1"] = m
	}
	if m, ok := byteArrayVar(p, "SHA256ID"); ok {
		t["hash.sha256"] = m
	}
	// HashID.Size by partial evaluation of the method on the two ids is not
	// possible with constants (array values); read the switch instead
	if f := p.Func("(HashID).Size"); f != nil {
		sizes := map[string]string{}
		for _, b := range f.Blocks {
			iff, ok := b.Instrs[len(b.Instrs)-1].(*ssa.If)
			if !ok {
				continue
			}
			bo, ok := iff.Cond.(*ssa.BinOp)
			if !ok || bo.Op != token.EQL {
				continue
			}
			var g *ssa.Global
			for _, v := range []ssa.Value{bo.X, bo.Y} {
				if ld, ok := v.(*ssa.UnOp); ok {
					if gg, ok := ld.X.(*ssa.Global); ok {
						g = gg
					}
				}
			}
			if g == nil {
				continue
			}
			// follow the true edge to a return of a constant
			tb := b.Succs[0]
			for i := 0; i < 3 && tb != nil; i++ {
				if ret, ok := tb.Instrs[len(tb.Instrs)-1].(*ssa.Return); ok && len(ret.Results) == 1 {
					if c, ok := ret.Results[0].(*ssa.Const); ok && c.Value != nil {
						sizes[g.Name()] = c.Value.ExactString()
					}
					break
				}
				if len(tb.Succs) == 1 {
					tb = tb.Succs[0]
				} else {
					break
				}
			}
		}
		if s, ok := sizes["SHA1ID"]; ok {
			t["hash.sha1.size"] = s
		}
		if s, ok := sizes["SHA256ID"]; ok {
			t["hash.sha256.size"] = s
		}
	}
	// header layout from the struct written with encoding/binary, big endian
	hT := p.namedType("header")
	fT := p.namedType("footer")
	hs := hT.Underlying().(*types.Struct)
	var parts []string
	off := int64(0)
	names := map[string]string{"magic": "magic", "blocksize": "block_size", "minupdateindex": "min_update_index", "maxupdateindex": "max_update_index", "hashid": "hash_id"}
	verShift := goVersionShift(p)
	for i := 0; i < hs.NumFields(); i++ {
		f := hs.Field(i)
		sz := sizeofType(f.Type())
		n := names[strings.ToLower(f.Name())]
		if n == "" {
			n = strings.ToLower(f.Name())
		}
		if n == "block_size" && sz == 4 && verShift == 24 {
			parts = append(parts, fmt.Sprintf("%d:version:1", off), fmt.Sprintf("%d:block_size:3", off+1))
		} else {
			parts = append(parts, fmt.Sprintf("%d:%s:%d", off, n, sz))
		}
		off += sz
	}
	t["header.layout"] = strings.Join(parts, ",")
	t["header.struct_size"] = strconv.FormatInt(sizeofType(hT), 10)
	t["footer.struct_size"] = strconv.FormatInt(sizeofType(fT), 10)
	fs := fT.Underlying().(*types.Struct)
	var ff []string
	for i := 0; i < fs.NumFields(); i++ {
		ff = append(ff, normOffsetName(fname(fs.Field(i))))
	}
	t["footer.fields"] = strings.Join(ff, ",")
	// who serialises what
	t["serialise.writer"] = strings.Join(binaryIOTypes(p, "encoding/binary.Write", "(*Writer)."), ",")
	t["serialise.reader"] = strings.Join(binaryIOTypes(p, "encoding/binary.Read", ""), ",")
	t["footer.sources"] = footerSources(p)
	// object id bits: shift in the writer, mask and shift in the reader
	t["footer.obj_id_bits"] = objIDBits(p)
	t["footer.crc"] = crcKind(p)
	// restart table widths from the block writer
	rw, cw, lw := restartWidths(p)
	t["restart.entry_width"], t["restart.count_width"], t["block.len_width"] = rw, cw, lw
	lits := stringLits(p)
	for k, want := range map[string]string{"stack.list": "tables.list", "stack.lock_suffix": ".lock", "stack.table_suffix": ".ref", "stack.name_format": "0x%012x-0x%012x-%08x"} {
		if lits[want] {
			t[k] = want
		} else {
			t[k] = "<absent>"
		}
	}
	return t
}

// goVersionShift: the shift applied to the version when it is merged into the block size word.
func goVersionShift(p *Program) int64 {
	f := p.Func("(*Writer).headerBytes")
	if f == nil {
		return -1
	}
	for _, b := range f.Blocks {
		for _, ins := range b.Instrs {
			if bo, ok := ins.(*ssa.BinOp); ok && bo.Op == token.SHL {
				if c, ok := bo.Y.(*ssa.Const); ok && c.Value != nil {
					v, _ := constant.Int64Val(constant.ToInt(c.Value))
					return v
				}
			}
		}
	}
	return -1
}

// binaryIOTypes lists the named struct types passed to encoding/binary.Read/Write.
func binaryIOTypes(p *Program, callee string, onlyIn string) []string {
	set := map[string]bool{}
	for _, f := range p.Funcs {
		if onlyIn != "" && !strings.HasPrefix(funcKey(f), onlyIn) {
			continue
		}
		for _, ci := range callsDirect(f, callee) {
			args := ci.Common().Args
			order := ""
			if g, ok := args[1].(*ssa.MakeInterface); ok {
				order = types.TypeString(g.X.Type(), func(*types.Package) string { return "" })
			}
			if mi, ok := args[2].(*ssa.MakeInterface); ok {
				tt := mi.X.Type()
				if pt, ok := tt.(*types.Pointer); ok {
					tt = pt.Elem()
				}
				if n, ok := tt.(*types.Named); ok && n.Obj().Pkg() == p.Main.Types {
					set[n.Obj().Name()+"/"+order] = true
				}
			}
		}
	}
	var res []string
	for k := range set {
		res = append(res, k)
	}
	sort.Strings(res)
	return res
}

// footerSources: for the footer literal in the writer, field -> source statistic, normalised.
func footerSources(p *Program) string {
	var parts []string
	for _, f := range p.Main.Syntax {
		ast.Inspect(f, func(n ast.Node) bool {
			cl, ok := n.(*ast.CompositeLit)
			if !ok {
				return true
			}
			if id, ok := cl.Type.(*ast.Ident); !ok || id.Name != "footer" {
				return true
			}
			for _, e := range cl.Elts {
				kv, ok := e.(*ast.KeyValueExpr)
				if !ok {
					continue
				}
				k := kv.Key.(*ast.Ident).Name
				src := types.ExprString(kv.Value)
				parts = append(parts, normOffsetName(k)+"="+normOffsetName(strings.ReplaceAll(src, "Offset", "")+map[bool]string{true: "index", false: ""}[strings.Contains(src, "IndexOffset")]))
			}
			return true
		})
	}
	sort.Strings(parts)
	return strings.Join(parts, ",")
}

// withHelpers: a function and the in-package functions it calls (two levels):
// footer assembly and parsing may live in helpers of Close / NewReader.
func withHelpers(p *Program, f *ssa.Function) []*ssa.Function {
	seen := map[*ssa.Function]bool{f: true}
	res := []*ssa.Function{f}
	frontier := []*ssa.Function{f}
	for depth := 0; depth < 2; depth++ {
		var next []*ssa.Function
		for _, g := range frontier {
			var ks []string
			for k := range directCallees(g) {
				ks = append(ks, k)
			}
			sort.Strings(ks)
			for _, k := range ks {
				if h := p.Func(k); h != nil && !seen[h] {
					seen[h] = true
					res = append(res, h)
					next = append(next, h)
				}
			}
		}
		frontier = next
	}
	return res
}

func blocksOf(fs []*ssa.Function) []*ssa.BasicBlock {
	var bs []*ssa.BasicBlock
	for _, f := range fs {
		bs = append(bs, f.Blocks...)
	}
	return bs
}

func objIDBits(p *Program) string {
	w := p.Func("(*Writer).Close")
	r := p.Func("NewReader")
	if w == nil || r == nil {
		return "?"
	}
	shl, shr, mask := "", "", ""
	for _, b := range blocksOf(withHelpers(p, w)) {
		for _, ins := range b.Instrs {
			if bo, ok := ins.(*ssa.BinOp); ok && bo.Op == token.SHL {
				if c, ok := bo.Y.(*ssa.Const); ok && c.Value != nil {
					// offset<<bits | id_len: a 64-bit shift whose result is or-ed
					feedsOr := false
					for _, ref := range *bo.Referrers() {
						if o, ok := ref.(*ssa.BinOp); ok && o.Op == token.OR {
							feedsOr = true
						}
					}
					if bt, ok := bo.Type().Underlying().(*types.Basic); ok && bt.Kind() == types.Uint64 && (feedsOr || b.Parent() == w) {
						shl = c.Value.ExactString()
					}
				}
			}
		}
	}
	for _, b := range r.Blocks {
		for _, ins := range b.Instrs {
			if bo, ok := ins.(*ssa.BinOp); ok {
				if c, ok := bo.Y.(*ssa.Const); ok && c.Value != nil {
					if bo.Op == token.SHR {
						shr = c.Value.ExactString()
					}
					if bo.Op == token.AND && c.Value.ExactString() != "16777215" {
						mask = c.Value.ExactString()
					}
				}
			}
		}
	}
	if shl == shr && mask != "" {
		m, _ := strconv.ParseInt(mask, 10, 64)
		s, _ := strconv.ParseInt(shl, 10, 64)
		if m == (1<<uint(s))-1 {
			return shl
		}
	}
	return fmt.Sprintf("writer<<%s reader>>%s &%s", shl, shr, mask)
}

func crcKind(p *Program) string {
	w, r := 0, 0
	for _, f := range withHelpers(p, p.MustFunc("(*Writer).Close")) {
		w += len(callsDirect(f, "hash/crc32.NewIEEE")) + len(callsDirect(f, "hash/crc32.ChecksumIEEE"))
	}
	for _, f := range withHelpers(p, p.MustFunc("NewReader")) {
		r += len(callsDirect(f, "hash/crc32.ChecksumIEEE")) + len(callsDirect(f, "hash/crc32.NewIEEE"))
	}
	if w > 0 && r > 0 {
		return "crc32-ieee"
	}
	return fmt.Sprintf("writer:%d reader:%d ieee calls", w, r)
}

// restartWidths: byte widths used by the block writer's finish: per restart
// entry, for the restart count, and for the block length.
func restartWidths(p *Program) (string, string, string) {
	f := p.Func("(*blockWriter).finish")
	if f == nil {
		return "?", "?", "?"
	}
	entry, count, blen := "?", "?", "?"
	li := (&Exec{loops: map[*ssa.Function]map[*ssa.BasicBlock]*loopInfo{}}).loopsOf(f)
	inLoop := func(b *ssa.BasicBlock) bool {
		for _, l := range li {
			if l.blocks[b] {
				return true
			}
		}
		return false
	}
	for _, b := range f.Blocks {
		hasU24, hasU16 := false, false
		for _, ins := range b.Instrs {
			if ci, ok := ins.(ssa.CallInstruction); ok {
				if cal := ci.Common().StaticCallee(); cal != nil {
					switch funcKey(cal) {
					case "putU24":
						hasU24 = true
					case "(encoding/binary.bigEndian).PutUint16":
						hasU16 = true
					}
				}
			}
		}
		for _, ins := range b.Instrs {
			bo, ok := ins.(*ssa.BinOp)
			if !ok || bo.Op != token.ADD {
				continue
			}
			c, ok := bo.Y.(*ssa.Const)
			if !ok || c.Value == nil {
				continue
			}
			switch {
			case hasU24 && inLoop(b):
				entry = c.Value.ExactString()
			case hasU16 && c.Value.ExactString() != "1":
				count = c.Value.ExactString()
			}
		}
		if hasU24 && !inLoop(b) {
			blen = "3"
		}
	}
	return entry, count, blen
}

// ---------------------------------------------------------------------------
// C side

func runClang(repo string, args ...string) ([]byte, error) {
	cmd := exec.Command("clang", args...)
	cmd.Dir = filepath.Join(repo, "c")
	return cmd.Output()
}

func evalCExpr(s string) (int64, bool) {
	s = strings.TrimSpace(s)
	for strings.HasPrefix(s, "(") && strings.HasSuffix(s, ")") && balanced(s[1:len(s)-1]) {
		s = strings.TrimSpace(s[1 : len(s)-1])
	}
	if len(s) == 3 && s[0] == '\'' && s[2] == '\'' {
		return int64(s[1]), true
	}
	if v, err := strconv.ParseInt(s, 0, 64); err == nil {
		return v, true
	}
	// lowest precedence first
	for _, ops := range [][]string{{"-", "+"}, {"<<"}} {
		depth := 0
		for i := len(s) - 1; i > 0; i-- {
			switch s[i] {
			case ')':
				depth++
			case '(':
				depth--
			}
			if depth != 0 {
				continue
			}
			for _, op := range ops {
				if strings.HasPrefix(s[i:], op) {
					a, ok1 := evalCExpr(s[:i])
					b, ok2 := evalCExpr(s[i+len(op):])
					if ok1 && ok2 {
						switch op {
						case "-":
							return a - b, true
						case "+":
							return a + b, true
						case "<<":
							return a << uint(b), true
						}
					}
				}
			}
		}
	}
	return 0, false
}

func balanced(s string) bool {
	d := 0
	for _, c := range s {
		if c == '(' {
			d++
		}
		if c == ')' {
			d--
			if d < 0 {
				return false
			}
		}
	}
	return d == 0
}

type cValue string

func (v *cValue) UnmarshalJSON(b []byte) error {
	s := string(b)
	if len(s) > 0 && s[0] == '"' {
		var str string
		if err := json.Unmarshal(b, &str); err != nil {
			return err
		}
		*v = cValue(str)
		return nil
	}
	*v = cValue(s)
	return nil
}

type cNode struct {
	Kind  string   `json:"kind"`
	Name  string   `json:"name"`
	Value cValue   `json:"value"`
	Inner []*cNode `json:"inner"`
	Ref   *struct {
		Name string `json:"name"`
	} `json:"referencedDecl"`
}

func (n *cNode) walk(f func(*cNode)) {
	if n == nil {
		return
	}
	f(n)
	for _, c := range n.Inner {
		c.walk(f)
	}
}

func cFunc(repo, file, fn string) (*cNode, error) {
	out, err := runClang(repo, "-fsyntax-only", "-I.", "-Iinclude", "-Xclang", "-ast-dump=json", "-Xclang", "-ast-dump-filter="+fn, file)
	if err != nil {
		return nil, fmt.Errorf("clang %s: %v", file, err)
	}
	dec := json.NewDecoder(strings.NewReader(string(out)))
	for {
		var n cNode
		if err := dec.Decode(&n); err != nil {
			if err == io.EOF {
				break
			}
			return nil, err
		}
		if n.Kind == "FunctionDecl" && n.Name == fn {
			hasBody := false
			for _, c := range n.Inner {
				if c.Kind == "CompoundStmt" {
					hasBody = true
				}
			}
			if hasBody {
				return &n, nil
			}
		}
	}
	return nil, fmt.Errorf("function %s not found in %s", fn, file)
}

func cLayout(repo string) (layoutTable, error) {
	t := layoutTable{}
	out, err := runClang(repo, "-E", "-dM", "-I.", "-Iinclude", "constants.h")
	if err != nil {
		return nil, fmt.Errorf("clang -E constants.h: %v", err)
	}
	out2, err := runClang(repo, "-E", "-dM", "-I.", "-Iinclude", "hash.h")
	if err != nil {
		return nil, fmt.Errorf("clang -E hash.h: %v", err)
	}
	macros := map[string]string{}
	re := regexp.MustCompile(`(?m)^#define (\w+) (.+)$`)
	for _, m := range re.FindAllStringSubmatch(string(out)+"\n"+string(out2), -1) {
		macros[m[1]] = m[2]
	}
	for k, n := range map[string]string{"block.type.ref": "BLOCK_TYPE_REF", "block.type.log": "BLOCK_TYPE_LOG", "block.type.index": "BLOCK_TYPE_INDEX", "block.type.obj": "BLOCK_TYPE_OBJ",
		"max_restarts": "MAX_RESTARTS", "default_block_size": "DEFAULT_BLOCK_SIZE"} {
		if v, ok := evalCExpr(macros[n]); ok {
			t[k] = strconv.FormatInt(v, 10)
		}
	}
	for k, n := range map[string]string{"hash.sha1": "GIT_SHA1_FORMAT_ID", "hash.sha256": "GIT_SHA256_FORMAT_ID"} {
		if v, ok := evalCExpr(macros[n]); ok {
			t[k] = string([]byte{byte(v >> 24), byte(v >> 16), byte(v >> 8), byte(v)})
		}
	}
	// header_size / footer_size: case value -> returned literal
	for _, fn := range []string{"header_size", "footer_size"} {
		n, err := cFunc(repo, "block.c", fn)
		if err != nil {
			return nil, err
		}
		cur := ""
		n.walk(func(c *cNode) {
			if c.Kind == "CaseStmt" {
				for _, cc := range c.Inner {
					cc.walk(func(x *cNode) {
						if x.Kind == "IntegerLiteral" && cur == "" {
							cur = string(x.Value)
						}
					})
					if cur != "" {
						break
					}
				}
				var ret string
				c.walk(func(x *cNode) {
					if x.Kind == "ReturnStmt" {
						x.walk(func(y *cNode) {
							if y.Kind == "IntegerLiteral" {
								ret = string(y.Value)
							}
						})
					}
				})
				if cur != "" && ret != "" {
					t[fn+".v"+cur] = ret
				}
				cur = ""
			}
		})
	}
	// header layout from writer_write_header: memcpy(dest, "REFT", 4); dest[4] = version; put_beNN(dest + off, field)
	if n, err := cFunc(repo, "writer.c", "writer_write_header"); err == nil {
		var parts []string
		n.walk(func(c *cNode) {
			if c.Kind != "CallExpr" {
				return
			}
			callee := ""
			c.Inner[0].walk(func(x *cNode) {
				if x.Kind == "DeclRefExpr" && x.Ref != nil && callee == "" {
					callee = x.Ref.Name
				}
			})
			width := map[string]int{"put_be24": 3, "put_be64": 8, "put_be32": 4, "put_be16": 2}[callee]
			if callee == "memcpy" && len(c.Inner) >= 3 {
				c.Inner[2].walk(func(x *cNode) {
					if x.Kind == "StringLiteral" {
						if s, err := strconv.Unquote(string(x.Value)); err == nil {
							t["magic"] = s
							parts = append(parts, "0:magic:"+strconv.Itoa(len(s)))
						}
					}
				})
			}
			if width == 0 || len(c.Inner) < 3 {
				return
			}
			off := "0"
			c.Inner[1].walk(func(x *cNode) {
				if x.Kind == "IntegerLiteral" {
					off = string(x.Value)
				}
			})
			field := ""
			c.Inner[2].walk(func(x *cNode) {
				if x.Kind == "MemberExpr" && field == "" {
					field = x.Name
				}
			})
			parts = append(parts, off+":"+field+":"+strconv.Itoa(width))
		})
		// dest[4] = version
		n.walk(func(c *cNode) {
			if c.Kind == "BinaryOperator" && len(c.Inner) == 2 && c.Inner[0].Kind == "ArraySubscriptExpr" {
				idx := ""
				c.Inner[0].walk(func(x *cNode) {
					if x.Kind == "IntegerLiteral" {
						idx = string(x.Value)
					}
				})
				if idx != "" {
					parts = append(parts, idx+":version:1")
				}
			}
		})
		sort.Slice(parts, func(i, j int) bool {
			a, _ := strconv.Atoi(strings.SplitN(parts[i], ":", 2)[0])
			b, _ := strconv.Atoi(strings.SplitN(parts[j], ":", 2)[0])
			return a < b
		})
		t["header.layout"] = strings.Join(parts, ",")
	} else {
		return nil, err
	}
	// footer field order: put_be64 sequence in the writer, get_be64 sequence in the reader
	seq := func(file, fn, callee string, assign bool) (string, string, error) {
		n, err := cFunc(repo, file, fn)
		if err != nil {
			return "", "", err
		}
		var fields []string
		bits := ""
		n.walk(func(c *cNode) {
			if assign {
				if c.Kind == "BinaryOperator" && len(c.Inner) == 2 {
					isCall := false
					c.Inner[1].walk(func(x *cNode) {
						if x.Kind == "DeclRefExpr" && x.Ref != nil && x.Ref.Name == callee {
							isCall = true
						}
					})
					if isCall {
						var path []string
						c.Inner[0].walk(func(x *cNode) {
							if x.Kind == "MemberExpr" {
								path = append(path, x.Name)
							}
						})
						fields = append(fields, strings.Join(path, "."))
					}
				}
				return
			}
			if c.Kind != "CallExpr" || len(c.Inner) < 3 {
				return
			}
			name := ""
			c.Inner[0].walk(func(x *cNode) {
				if x.Kind == "DeclRefExpr" && x.Ref != nil && name == "" {
					name = x.Ref.Name
				}
			})
			if name != callee {
				return
			}
			var path []string
			first := true
			c.Inner[2].walk(func(x *cNode) {
				if x.Kind == "MemberExpr" && first {
					path = append(path, x.Name)
				}
				if x.Kind == "BinaryOperator" {
					x.walk(func(y *cNode) {
						if y.Kind == "IntegerLiteral" {
							bits = string(y.Value)
						}
					})
				}
			})
			// only the first member chain (before | id_len)
			if len(path) > 3 {
				path = path[:3]
			}
			fields = append(fields, strings.Join(path, "."))
		})
		var norm []string
		for _, f := range fields {
			if strings.Contains(f, "update_index") || strings.Contains(f, "block_size") {
				continue
			}
			norm = append(norm, normOffsetName(strings.ReplaceAll(strings.ReplaceAll(f, "offsets", ""), "stats", "")+map[bool]string{true: "", false: ""}[true]))
		}
		return strings.Join(norm, ","), bits, nil
	}
	wf, bits, err := seq("writer.c", "reftable_writer_close", "put_be64", false)
	if err != nil {
		return nil, err
	}
	rf, _, err := seq("reader.c", "parse_footer", "get_be64", true)
	if err != nil {
		return nil, err
	}
	t["footer.fields"] = wf
	t["footer.fields.reader"] = rf
	t["footer.obj_id_bits"] = bits
	// stack naming: string literals of stack.c
	src, err := runClang(repo, "-E", "-P", "-I.", "-Iinclude", "stack.c")
	if err != nil {
		return nil, fmt.Errorf("clang -E stack.c: %v", err)
	}
	text := string(src)
	has := func(s string) bool { return strings.Contains(text, strconv.Quote(s)) }
	t["stack.list"] = map[bool]string{true: "tables.list", false: "<absent>"}[has("/tables.list") || has("tables.list")]
	t["stack.lock_suffix"] = map[bool]string{true: ".lock", false: "<absent>"}[has(".lock")]
	t["stack.table_suffix"] = map[bool]string{true: ".ref", false: "<absent>"}[has(".ref")]
	// adjacent literals are one string; PRIx64 expands to a length modifier + x
	joined := regexp.MustCompile(`"\s*"`).ReplaceAllString(text, "")
	nf := regexp.MustCompile(`"0x%012l*x-0x%012l*x-%08x"`)
	if nf.MatchString(joined) {
		t["stack.name_format"] = "0x%012x-0x%012x-%08x"
	} else {
		t["stack.name_format"] = "<absent>"
	}
	return t, nil
}
