package main

import (
	"go/token"
	"go/types"
	"sort"
	"strconv"
	"strings"

	"golang.org/x/tools/go/ssa"
)

func isSignedInt(t types.Type) bool {
	b, ok := t.Underlying().(*types.Basic)
	return ok && b.Info()&types.IsInteger != 0 && b.Info()&types.IsUnsigned == 0
}

func one(st *State, v *Term) []alt { return []alt{{st: st, val: v}} }

func tupleOf(vs ...*Term) *Term { return mk("tuple", "", nil, vs...) }

// step interprets one non-terminator instruction.
func (x *Exec) step(fr *Frame, ins ssa.Instruction, st *State) []alt {
	switch ins := ins.(type) {
	case *ssa.DebugRef:
		return one(st, nil)
	case *ssa.Alloc:
		return one(st, mk("alloc", fr.ctx+"/"+funcKey(fr.fn)+"."+ins.Name()+"/"+ins.Comment, ins.Type().(*types.Pointer).Elem(), x.curMark()))
	case *ssa.MakeSlice:
		if bc, ok := x.C.(BoundsClient); ok {
			sz := x.val(fr, ins.Len)
			bc.OnBounds(x, st, fr, ins, "make", nil, sz, x.val(fr, ins.Cap))
			m := mk("madeslice", fr.ctx+"/"+funcKey(fr.fn)+"."+ins.Name(), ins.Type(), x.curMark())
			st.mem["len:"+m.key] = cell{m, sz}
			return one(st, m)
		}
		if lv := x.val(fr, ins.Len); x.UniqueMake && !(lv.isConst() && lv.Aux == "0") {
			// (a slice made empty and appended to is an ordinary list)
			m := mk("madeslice", fr.ctx+"/"+funcKey(fr.fn)+"."+ins.Name(), ins.Type(), x.curMark())
			st.mem["len:"+m.key] = cell{m, x.val(fr, ins.Len)}
			return one(st, m)
		}
		if lv := x.val(fr, ins.Len); !(lv.isConst() && lv.Aux == "0") {
			// a slice made non-empty is filled by index: an abstract list with the
			// identity of its allocation site, grown by the index stores (below)
			m := mk("list", "made:"+fr.ctx+"/"+funcKey(fr.fn)+"."+ins.Name(), nil)
			st.mem["len:"+m.Aux] = cell{m, lv}
			st.mem["fwd:"+m.Aux] = cell{m, m}
			return one(st, m)
		}
		return one(st, tList(false, nil))
	case *ssa.MakeMap:
		m := mk("mapobj", fr.ctx+"/"+funcKey(fr.fn)+"."+ins.Name(), ins.Type(), x.curMark())
		setMapEntries(st, m, nil)
		return one(st, m)
	case *ssa.MakeClosure:
		var bs []*Term
		for _, b := range ins.Bindings {
			bs = append(bs, x.val(fr, b))
		}
		if g, bound := x.P.closureTarget(ins); bound && g != nil {
			return one(st, mk("closure", "bound:"+funcKey(g), ins.Type(), bs...))
		}
		return one(st, mk("closure", funcKey(ins.Fn.(*ssa.Function)), ins.Type(), bs...))
	case *ssa.MakeInterface:
		return one(st, x.val(fr, ins.X))
	case *ssa.ChangeInterface:
		return one(st, x.val(fr, ins.X))
	case *ssa.ChangeType:
		return one(st, x.val(fr, ins.X))
	case *ssa.Convert:
		v := x.val(fr, ins.X)
		if x.StrictConv {
			if t := x.strictConvert(st, v, ins.X.Type(), ins.Type()); t != nil {
				return one(st, t)
			}
		}
		// string <-> []byte conversions and numeric widenings keep the term;
		// the type is irrelevant to the path kinds tracked here.
		return one(st, v)
	case *ssa.MultiConvert:
		return one(st, x.val(fr, ins.X))
	case *ssa.SliceToArrayPointer:
		return one(st, x.val(fr, ins.X))
	case *ssa.FieldAddr:
		base := x.val(fr, ins.X)
		// a field of *base is addressed: base is not nil on every continuing path
		if !nonNil(base) && base.Op != "param" {
			st.setFact(tEq(base, tNil), false)
		}
		return one(st, mk("field", fieldAux(ins.X.Type().Underlying().(*types.Pointer).Elem(), ins.Field), nil, base))
	case *ssa.Field:
		v := x.val(fr, ins.X)
		stt := ins.X.Type().Underlying().(*types.Struct)
		if v.Op == "struct" && len(v.Args) == stt.NumFields() {
			return one(st, v.Args[ins.Field])
		}
		return one(st, mk("fieldof", fname(stt.Field(ins.Field)), ins.Type(), v))
	case *ssa.IndexAddr:
		base := x.val(fr, ins.X)
		idx := x.val(fr, ins.Index)
		if bc, ok := x.C.(BoundsClient); ok {
			bc.OnBounds(x, st, fr, ins, "index", base, idx, nil)
		}
		if _, isB := x.C.(BoundsClient); !isB && !idx.isConst() && isSignedInt(ins.Index.Type()) {
			// the index expression did not panic: 0 <= idx on the paths that go on
			st.setFact(tLt(idx, tConst("0", types.Typ[types.Int])), false)
		}
		base, idx = x.normIndex(base, idx)
		return one(st, mk("index", "", nil, base, idx))
	case *ssa.Index:
		base := x.val(fr, ins.X)
		idx := x.val(fr, ins.Index)
		if bc, ok := x.C.(BoundsClient); ok {
			bc.OnBounds(x, st, fr, ins, "index", base, idx, nil)
		}
		base, idx = x.normIndex(base, idx)
		return one(st, elemOf(base, idx, ins.Type()))
	case *ssa.Slice:
		base := x.val(fr, ins.X)
		if ins.Low == nil && ins.High == nil && ins.Max == nil {
			if _, isPtr := ins.X.Type().Underlying().(*types.Pointer); isPtr {
				return one(st, mk("slice", "full", ins.Type(), base))
			}
			return one(st, base)
		}
		var lo, hi *Term = tNil, tNil
		if ins.Low != nil {
			lo = x.val(fr, ins.Low)
		}
		if ins.High != nil {
			hi = x.val(fr, ins.High)
		}
		if bc, ok := x.C.(BoundsClient); ok {
			bc.OnBounds(x, st, fr, ins, "slice", base, lo, hi)
		}
		if _, isB := x.C.(BoundsClient); !isB {
			// the slice expression did not panic: 0 <= lo <= hi on the paths that go on
			zero := tConst("0", types.Typ[types.Int])
			if !lo.isNilConst() && !lo.isConst() {
				st.setFact(tLt(lo, zero), false)
			}
			if !lo.isNilConst() && !hi.isNilConst() && !(lo.isConst() && hi.isConst()) {
				st.setFact(tLt(hi, lo), false)
			}
		}
		return one(st, mk("subslice", "", ins.Type(), base, lo, hi))
	case *ssa.UnOp:
		v := x.val(fr, ins.X)
		switch ins.Op {
		case token.MUL:
			return x.loadAlts(fr, st, v, ins.Type(), ins.Pos())
		case token.NOT:
			return one(st, tNot(v))
		case token.SUB:
			if n, ok := constInt(v); ok {
				return one(st, tConst(strconv.FormatInt(-n, 10), ins.Type()))
			}
		}
		return one(st, mk("un", ins.Op.String(), ins.Type(), v))
	case *ssa.BinOp:
		return one(st, x.binop(ins.Op, x.val(fr, ins.X), x.val(fr, ins.Y), ins.Type()))
	case *ssa.Store:
		addr := x.val(fr, ins.Addr)
		v := x.val(fr, ins.Val)
		var old *Term
		if c, ok := st.mem[addr.key]; ok {
			old = c.val
		}
		x.store(st, addr, v, ins.Val.Type())
		x.C.OnStore(x, st, fr, ins.Pos(), addr, v, old)
		if addr.Op == "index" && addr.Args[0].Op == "list" && addr.Args[0].Aux != "exact" && v != nil {
			// s[i] = v on an abstract list: v becomes a member of the list, wherever
			// this slice value is held (weak update; positions are not tracked)
			l := addr.Args[0]
			has := false
			for _, m := range l.Args {
				if m == v {
					has = true
				}
			}
			if !has {
				l2 := mk("list", l.Aux, l.Typ, append(append([]*Term{}, l.Args...), v)...)
				if strings.HasPrefix(l.Aux, "made:") {
					st.mem["fwd:"+l.Aux] = cell{mk("list", l.Aux, nil), l2}
				}
				var ks []string
				for k, c := range st.mem {
					if c.val == l {
						ks = append(ks, k)
					}
				}
				sort.Strings(ks)
				for _, k := range ks {
					c := st.mem[k]
					st.mem[k] = cell{c.addr, l2}
					if c.addr != nil && !strings.Contains(k, ":") {
						x.C.OnStore(x, st, fr, ins.Pos(), c.addr, l2, l)
					}
				}
				var svs []ssa.Value
				for sv, t := range fr.env {
					if t == l {
						svs = append(svs, sv)
					}
				}
				sort.Slice(svs, func(i, j int) bool { return svs[i].Name() < svs[j].Name() })
				for _, sv := range svs {
					fr.env[sv] = l2
				}
				if len(svs) > 0 {
					// the slice as a local value: reported like a store to a cell of its own
					x.C.OnStore(x, st, fr, ins.Pos(), mk("slicecell", l.Aux, nil), l2, l)
				}
			}
		}
		return one(st, nil)
	case *ssa.Extract:
		t := x.val(fr, ins.Tuple)
		if t.Op == "tuple" && ins.Index < len(t.Args) {
			return one(st, t.Args[ins.Index])
		}
		return one(st, mk("extract", strconv.Itoa(ins.Index), ins.Type(), t))
	case *ssa.TypeAssert:
		v := x.val(fr, ins.X)
		if ins.CommaOk {
			return one(st, tupleOf(v, x.fresh("unk", fr, "assertok."+ins.Name(), types.Typ[types.Bool])))
		}
		return one(st, v)
	case *ssa.Lookup:
		return x.lookup(fr, st, ins)
	case *ssa.MapUpdate:
		m := x.val(fr, ins.Map)
		k := x.val(fr, ins.Key)
		v := x.val(fr, ins.Value)
		if m.Op == "mapobj" {
			es := mapEntries(st, m)
			es = append(es, [2]*Term{k, v})
			setMapEntries(st, m, es)
		}
		return one(st, nil)
	case *ssa.Range:
		return one(st, mk("rangeiter", "", nil, x.val(fr, ins.X)))
	case *ssa.Next:
		return x.next(fr, st, ins)
	case *ssa.Defer:
		callee, fnTerm, args := x.resolveCall(fr, ins.Common())
		fr.defers = append(fr.defers, deferred{site: ins, callee: callee, fnTerm: fnTerm, args: args})
		return one(st, nil)
	case *ssa.RunDefers:
		return x.runDefers(fr, st)
	case *ssa.Call:
		callee, fnTerm, args := x.resolveCall(fr, ins.Common())
		outs := x.call(fr, st, ins, callee, fnTerm, args)
		var alts []alt
		for _, o := range outs {
			alts = append(alts, alt{st: o.St, val: o.Val, pan: o.Panic})
		}
		return alts
	case *ssa.Go:
		fatalf("pathsim: go statement in %s not supported", funcKey(fr.fn))
	case *ssa.Select, *ssa.Send, *ssa.MakeChan:
		fatalf("pathsim: channel operation in %s not supported", funcKey(fr.fn))
	}
	fatalf("pathsim: unsupported instruction %T in %s", ins, funcKey(fr.fn))
	return nil
}

// loadAlts loads through addr; loading an element of an abstract list forks
// over its members (a "draw").
func (x *Exec) loadAlts(fr *Frame, st *State, addr *Term, typ types.Type, pos token.Pos) []alt {
	if addr.Op == "index" {
		base := addr.Args[0]
		if base.isNilConst() {
			return nil
		}
		if base.Op == "list" {
			if base.Aux == "exact" {
				if i, ok := constInt(addr.Args[1]); ok && int(i) < len(base.Args) && i >= 0 {
					return one(st, base.Args[i])
				}
			}
			var alts []alt
			ms := base.Args
			seen := map[string]bool{}
			for _, m := range ms {
				if seen[m.key] {
					continue
				}
				seen[m.key] = true
				s := st
				if len(alts) < len(ms)-1 {
					s = st.clone()
				}
				v := m
				if m.Op == "anyelem" {
					v = elemOf(m.Args[0], addr.Args[1], typ)
				} else if len(x.marks) > 0 && base.Aux != "exact" {
					// a per-iteration instance of the summary member at this index
					v = mk("draw", "", typ, m, addr.Args[1])
				}
				if len(x.marks) > 0 {
					s.drawn[x.curMark().key] = m
				}
				alts = append(alts, alt{st: s, val: v})
			}
			if len(alts) == 0 {
				// drawing from an empty abstract list: infeasible path
				return nil
			}
			if len(alts) > 1 {
				for _, a := range alts {
					a.st.note(pos, "element drawn: %s", a.val)
				}
			}
			return alts
		}
		if _, isCell := st.mem[addr.key]; !isCell && rootOf(addr).Op != "alloc" {
			if len(x.marks) > 0 {
				st.drawn[x.curMark().key] = mk("anyelem", "", nil, base)
			}
			return one(st, elemOf(base, addr.Args[1], typ))
		}
	}
	v := x.load(st, addr, typ)
	if v.Op == "oneof" {
		// the cell holds one of several values merged at a loop head: decide which
		var alts []alt
		for i, m := range v.Args {
			s := st
			if i < len(v.Args)-1 {
				s = st.clone()
			}
			s.mem[addr.key] = cell{addr, m}
			alts = append(alts, alt{st: s, val: m})
		}
		return alts
	}
	return one(st, v)
}

// lookup models m[k] on an abstract map: one alternative per entry that may
// match (recording k == key_i and, by key uniqueness, k != key_j for the
// others) plus the not-found alternative.
func (x *Exec) lookup(fr *Frame, st *State, ins *ssa.Lookup) []alt {
	m := x.val(fr, ins.X)
	k := x.val(fr, ins.Index)
	mkres := func(v *Term, ok bool) *Term {
		if ins.CommaOk {
			return tupleOf(v, tBool(ok))
		}
		return v
	}
	if m.Op != "mapobj" {
		// string indexing or opaque map
		if _, isMap := ins.X.Type().Underlying().(*types.Map); !isMap {
			return one(st, mk("elem", "", ins.Type(), m, k))
		}
		v := mk("maplookup", "", ins.Type(), m, k)
		if ins.CommaOk {
			return one(st, tupleOf(mk("extract", "0", nil, v), mk("extract", "1", types.Typ[types.Bool], v)))
		}
		return one(st, v)
	}
	es := mapEntries(st, m)
	elemT := ins.X.Type().Underlying().(*types.Map).Elem()
	var alts []alt
	for i, e := range es {
		if st.truth(tEq(k, e[0])) == 0 {
			continue
		}
		s := st.clone()
		key, val := e[0], e[1]
		if isSummary(val) && isSummary(key) && key != k && val.Op != "inst" {
			// materialise one instance out of the summary entry
			inst := mk("inst", fr.ctx+"/"+funcKey(fr.fn)+"."+ins.Name(), val.Typ, val, x.curMark())
			nk := key.subst(val, inst)
			if nk != key {
				val, key = inst, nk
				s.setFact(tEq(k, e[0]), false) // the residual summary no longer holds k
				es2 := append([][2]*Term{}, es...)
				es2 = append(es2, [2]*Term{key, val})
				setMapEntries(s, m, es2)
			}
		}
		s.setFact(tEq(k, key), true)
		for j, o := range es {
			if j != i && o[0] != key {
				s.setFact(tEq(k, o[0]), false)
			}
		}
		s.note(ins.Pos(), "map lookup %s: found %s", k, val)
		alts = append(alts, alt{st: s, val: mkres(val, true)})
	}
	must := false
	for _, e := range es {
		if e[0] == k && !isSummary(k) {
			must = true
		}
	}
	if !must {
		s := st.clone()
		for _, e := range es {
			s.setFact(tEq(k, e[0]), false)
		}
		if len(es) > 0 {
			s.note(ins.Pos(), "map lookup %s: not found", k)
		}
		alts = append(alts, alt{st: s, val: mkres(zeroOf(elemT), false)})
	}
	return alts
}

func (x *Exec) next(fr *Frame, st *State, ins *ssa.Next) []alt {
	it := x.val(fr, ins.Iter)
	done := tupleOf(tFalse, tNil, tNil)
	if it.Op != "rangeiter" {
		fatalf("pathsim: next on %s", it)
	}
	coll := it.Args[0]
	if coll.Op == "mapobj" {
		es := mapEntries(st, coll)
		var alts []alt
		for _, e := range es {
			s := st.clone()
			if len(x.marks) > 0 {
				s.drawn[x.curMark().key] = e[1]
			}
			s.note(ins.Pos(), "map entry drawn: %s", e[1])
			alts = append(alts, alt{st: s, val: tupleOf(tTrue, e[0], e[1])})
		}
		alts = append(alts, alt{st: st, val: done})
		return alts
	}
	// opaque map or string
	s2 := st.clone()
	k := x.fresh("rangekey", fr, ins.Name(), nil)
	v := mk("elem", "", nil, coll, k)
	return []alt{{st: s2, val: tupleOf(tTrue, k, v)}, {st: st, val: done}}
}

// resolveCall evaluates the callee and arguments of a call site.
func (x *Exec) resolveCall(fr *Frame, c *ssa.CallCommon) (*ssa.Function, *Term, []*Term) {
	var args []*Term
	if c.IsInvoke() {
		recv := x.val(fr, c.Value)
		args = append(args, recv)
		for _, a := range c.Args {
			args = append(args, x.val(fr, a))
		}
		return nil, mk("method", c.Method.FullName(), nil), args
	}
	for _, a := range c.Args {
		args = append(args, x.val(fr, a))
	}
	if f := c.StaticCallee(); f != nil {
		if mc, ok := c.Value.(*ssa.MakeClosure); ok {
			_ = mc
			return f, x.val(fr, c.Value), args
		}
		return f, mk("func", funcKey(f), nil), args
	}
	if b, ok := c.Value.(*ssa.Builtin); ok {
		return nil, mk("builtin", b.Name(), nil), args
	}
	ft := x.val(fr, c.Value)
	if ft.Op == "closure" {
		if strings.HasPrefix(ft.Aux, "bound:") {
			// a bound method value: the binding is the receiver
			if f := x.P.Func(strings.TrimPrefix(ft.Aux, "bound:")); f != nil && len(ft.Args) == 1 {
				return f, mk("func", funcKey(f), nil), append([]*Term{ft.Args[0]}, args...)
			}
		} else if f := x.P.Func(ft.Aux); f != nil {
			return f, ft, args
		}
	}
	if ft.Op == "func" {
		if f := x.P.Func(ft.Aux); f != nil {
			return f, ft, args
		}
	}
	return nil, ft, args
}

func siteID(fr *Frame, site ssa.CallInstruction) string {
	name := ""
	if v := site.Value(); v != nil {
		name = v.Name()
	} else {
		name = "defer@" + strconv.Itoa(site.Block().Index)
		for i, ins := range site.Block().Instrs {
			if ins == site.(ssa.Instruction) {
				name += "." + strconv.Itoa(i)
			}
		}
	}
	return funcKey(fr.fn) + "." + name
}

// call dispatches one call: builtins, client models, inlining, opaque.
func (x *Exec) call(fr *Frame, st *State, site ssa.CallInstruction, callee *ssa.Function, fnTerm *Term, args []*Term) []CallOut {
	if fnTerm.Op == "builtin" {
		if handled, outs := x.C.Call(x, st, fr, site, callee, fnTerm, args); handled {
			return outs
		}
		return x.builtin(fr, st, site, fnTerm.Aux, args)
	}
	if handled, outs := x.C.Call(x, st, fr, site, callee, fnTerm, args); handled {
		return outs
	}
	if callee != nil && callee.Blocks != nil && callee.Pkg == x.P.Pkg && x.C.Inline(callee) {
		return x.inline(fr, st, site, callee, fnTerm, args)
	}
	x.havocArgs(st, fr, site, callee, args)
	return []CallOut{{St: st, Val: x.opaqueResult(fr, site, callee, fnTerm, args)}}
}

// havocArgs invalidates what a call that is not simulated may write through
// its pointer arguments, according to the callee's field-sensitive write set.
func (x *Exec) havocArgs(st *State, fr *Frame, site ssa.CallInstruction, callee *ssa.Function, args []*Term) {
	siteT := mk("site", fr.ctx+"/"+siteID(fr, site), nil, x.curMark())
	ws := getWriteSets(x.P)
	for ai, a := range args {
		if !addressLike(a) {
			continue
		}
		fields := ws.writtenFields(callee, site.Common(), ai)
		if fields["*"] {
			x.havoc(st, a, siteT)
			continue
		}
		for f := range fields {
			x.havoc(st, mk("field", f, nil, a), siteT)
		}
	}
}

// addressLike: the term denotes (a pointer to) an object whose content a
// callee could change.
func addressLike(t *Term) bool {
	switch t.Op {
	case "alloc", "field", "index":
		return true
	case "param", "free", "call", "extract", "init", "elem", "inst", "draw", "nonnil":
		return isPointerTerm(t)
	}
	return false
}

func intInfo(t types.Type, sizes types.Sizes) (bits int, signed bool, ok bool) {
	b, isB := t.Underlying().(*types.Basic)
	if !isB || b.Info()&types.IsInteger == 0 {
		return 0, false, false
	}
	bits = int(sizes.Sizeof(t)) * 8
	return bits, b.Info()&types.IsUnsigned == 0, true
}

// strictConvert returns nil when the conversion preserves the value for
// every possible operand, and an opaque conv term otherwise.
func (x *Exec) strictConvert(st *State, v *Term, from, to types.Type) *Term {
	sizes := x.P.Main.TypesSizes
	fb, fs, ok1 := intInfo(from, sizes)
	tb, ts, ok2 := intInfo(to, sizes)
	if !ok1 || !ok2 {
		return nil
	}
	switch {
	case fs == ts && tb >= fb:
		return nil
	case !fs && ts && tb > fb:
		return nil // unsigned into a wider signed type
	case fs && !ts && tb >= fb:
		// signed into unsigned: value preserving for non-negative operands
		if v.Op == "len" || (v.isConst() && !strings.HasPrefix(v.Aux, "-")) {
			return nil
		}
	}
	if v.isConst() {
		return nil
	}
	if cc, ok := x.C.(interface {
		SafeConv(x *Exec, st *State, v *Term, fromBits int, fromSigned bool, toBits int, toSigned bool) bool
	}); ok && cc.SafeConv(x, st, v, fb, fs, tb, ts) {
		return nil
	}
	return mk("conv", types.TypeString(to, nil)+"<-"+types.TypeString(from, nil), to, v)
}

func isPointerTerm(t *Term) bool {
	if t.Typ == nil {
		return false
	}
	switch t.Typ.Underlying().(type) {
	case *types.Pointer, *types.Interface:
		return true
	}
	return false
}

func (x *Exec) inline(fr *Frame, st *State, site ssa.CallInstruction, callee *ssa.Function, fnTerm *Term, args []*Term) []CallOut {
	x.NInlined++
	var free []*Term
	if fnTerm != nil && fnTerm.Op == "closure" {
		free = fnTerm.Args
	}
	ctx := fr.ctx + ">" + siteID(fr, site)
	var outs []CallOut
	// a boolean argument that the path leaves open (e.g. reload(st.f == nil)) is
	// decided before the callee is entered, so that loops of the callee which
	// branch on the parameter are analysed once per value instead of joined
	for i, a := range args {
		if a == nil || i >= len(callee.Params) || a.Op == "const" || a.Op == "param" {
			continue
		}
		if bt, ok := callee.Params[i].Type().Underlying().(*types.Basic); !ok || bt.Kind() != types.Bool {
			continue
		}
		if st.truth(a) >= 0 || !(a.Op == "eq" || a.Op == "lt" || a.Op == "not") {
			continue
		}
		for _, v := range []bool{true, false} {
			s2 := st.clone()
			s2.setFact(a, v)
			s2.note(site.Pos(), "argument %s = %v", a, v)
			outs = append(outs, x.inline(fr.clone(), s2, site, callee, fnTerm, args)...)
		}
		return outs
	}
	x.C.BeforeInline(x, st, fr, site, callee, args)
	seen := map[string]bool{}
	for _, r := range x.RunFunc(callee, args, free, st, ctx, fr.depth+1) {
		if r.Panic {
			outs = append(outs, CallOut{St: r.St, Panic: true})
			continue
		}
		var v *Term
		switch len(r.Vals) {
		case 0:
			v = nil
		case 1:
			v = r.Vals[0]
		default:
			v = tupleOf(r.Vals...)
		}
		x.C.AfterInline(x, r.St, fr, site, callee, args, v)
		dk := r.St.key()
		if v != nil {
			dk += "#" + v.key
		}
		if seen[dk] {
			x.NMerged++
			continue
		}
		seen[dk] = true
		outs = append(outs, CallOut{St: r.St, Val: v})
	}
	return outs
}

// opaqueResult is the value of a call the simulator does not look into.
func (x *Exec) opaqueResult(fr *Frame, site ssa.CallInstruction, callee *ssa.Function, fnTerm *Term, args []*Term) *Term {
	name := calleeName(callee, fnTerm)
	var typ types.Type
	if v := site.Value(); v != nil {
		typ = v.Type()
	}
	as := append([]*Term{mk("site", fr.ctx+"/"+siteID(fr, site), nil, x.curMark())}, args...)
	t := mk("call", name, typ, as...)
	if tup, ok := typ.(*types.Tuple); ok {
		var es []*Term
		for i := 0; i < tup.Len(); i++ {
			es = append(es, mk("extract", strconv.Itoa(i), tup.At(i).Type(), t))
		}
		return tupleOf(es...)
	}
	return t
}

func (x *Exec) runDefers(fr *Frame, st *State) []alt {
	ds := fr.defers
	fr.defers = nil
	cur := []*State{st}
	for i := len(ds) - 1; i >= 0; i-- {
		d := ds[i]
		var next []*State
		for _, s := range cur {
			for _, o := range x.call(fr, s, d.site, d.callee, d.fnTerm, d.args) {
				if o.Panic {
					continue
				}
				next = append(next, o.St)
			}
		}
		cur = next
	}
	var alts []alt
	for _, s := range cur {
		alts = append(alts, alt{st: s})
	}
	return alts
}

func (x *Exec) builtin(fr *Frame, st *State, site ssa.CallInstruction, name string, args []*Term) []CallOut {
	var typ types.Type
	if v := site.Value(); v != nil {
		typ = v.Type()
	}
	ret := func(v *Term) []CallOut { return []CallOut{{St: st, Val: v}} }
	switch name {
	case "len", "cap":
		a := args[0]
		if s, ok := constString(a); ok {
			return ret(tConst(strconv.Itoa(len(s)), typ))
		}
		if a.isNilConst() {
			return ret(tConst("0", typ))
		}
		if a.Op == "list" {
			if a.Aux == "exact" {
				return ret(tConst(strconv.Itoa(len(a.Args)), typ))
			}
			if strings.HasPrefix(a.Aux, "made:") {
				// made with a length: that length, whatever has been stored so far
				if c, ok := st.mem["len:"+a.Aux]; ok && name == "len" {
					return ret(c.val)
				}
				return ret(mk(name, "", typ, mk("list", a.Aux, nil)))
			}
			if len(a.Args) == 0 {
				return ret(tConst("0", typ))
			}
		}
		if es, ok := x.sliceElems(st, a); ok {
			return ret(tConst(strconv.Itoa(len(es)), typ))
		}
		if a.Op == "mapobj" && len(mapEntries(st, a)) == 0 {
			return ret(tConst("0", typ))
		}
		if name == "len" && a.Op == "fam" {
			return ret(mk("len", "", typ, a.Args[0]))
		}
		if name == "len" && x.NormSubslice {
			if l := x.normLen(a, typ); l != nil {
				return ret(l)
			}
		}
		return ret(mk("len", "", typ, a))
	case "append":
		a, b := args[0], tNil
		if len(args) > 1 {
			b = args[1]
		}
		var add []*Term
		exactB := false
		if es, ok := x.sliceElems(st, b); ok {
			add, exactB = es, true
		} else {
			add = x.membersOf(st, fr, siteID(fr, site)+".b", b)
		}
		inLoop := len(x.marks) > 0
		if exactB && !inLoop {
			if a.isNilConst() {
				return ret(tList(true, add))
			}
			if a.Op == "list" && a.Aux == "exact" {
				return ret(tList(true, append(append([]*Term{}, a.Args...), add...)))
			}
		}
		return ret(tList(false, append(append([]*Term{}, x.membersOf(st, fr, siteID(fr, site)+".a", a)...), add...)))
	case "delete":
		m, k := args[0], args[1]
		if m.Op == "mapobj" {
			var keep [][2]*Term
			for _, e := range mapEntries(st, m) {
				if e[0] == k || st.truth(tEq(k, e[0])) == 1 {
					continue
				}
				if isSummary(e[0]) || isSummary(k) {
					// after delete(m,k) no remaining key equals k
					st.setFact(tEq(k, e[0]), false)
				}
				keep = append(keep, e)
			}
			setMapEntries(st, m, keep)
		}
		return ret(nil)
	case "copy":
		return ret(x.fresh("unk", fr, "copy."+siteID(fr, site), typ))
	case "print", "println":
		return ret(nil)
	case "panic":
		return []CallOut{{St: st, Panic: true}}
	case "recover":
		return ret(tNil)
	case "min", "max":
		return ret(mk("call", name, typ, args...))
	}
	fatalf("pathsim: builtin %s not supported", name)
	return nil
}

// normIndex rewrites an access s[lo:hi][j] of a slice of an opaque slice into
// the access s[lo+j] of the underlying slice (they alias), so that elements
// reached through `range s[:n]` and through `s[i]` are the same terms.
func (x *Exec) normIndex(base, idx *Term) (*Term, *Term) {
	if !x.NormSubslice {
		return base, idx
	}
	for base.Op == "subslice" && len(base.Args) == 3 && base.Args[0].Op != "list" && !base.Args[0].isNilConst() {
		if lo := base.Args[1]; !lo.isNilConst() {
			idx = x.binop(token.ADD, lo, idx, idx.Typ)
		}
		base = base.Args[0]
	}
	return base, idx
}

// normLen: len(s[lo:hi]) = hi - lo (hi defaults to len(s), lo to 0) for an
// opaque underlying slice.
func (x *Exec) normLen(a *Term, typ types.Type) *Term {
	if a.Op != "subslice" || len(a.Args) != 3 || a.Args[0].Op == "list" || a.Args[0].isNilConst() {
		return nil
	}
	base, lo, hi := a.Args[0], a.Args[1], a.Args[2]
	var l *Term
	if hi.isNilConst() {
		if l = x.normLen(base, typ); l == nil {
			l = mk("len", "", typ, base)
		}
	} else {
		l = hi
	}
	if !lo.isNilConst() {
		l = x.binop(token.SUB, l, lo, typ)
	}
	return l
}
