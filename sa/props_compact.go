package main

import (
	"fmt"
	"go/token"
	"go/types"
	"os"
	"sort"
	"strings"

	"golang.org/x/tools/go/ssa"
)

// Decision tables and dataflow of the compaction rewrite loop (C07, C13):
// DT-TOMB-REF, DT-EXPIRY, COMPACT-RANGE, COMPACT-LIMITS, COMPACT-RAW.

// directCallees lists the funcKeys of static callees called directly in fn.
func directCallees(fn *ssa.Function) map[string]bool {
	res := map[string]bool{}
	for _, b := range fn.Blocks {
		for _, ins := range b.Instrs {
			if ci, ok := ins.(ssa.CallInstruction); ok {
				if cal := ci.Common().StaticCallee(); cal != nil {
					res[funcKey(cal)] = true
				}
			}
		}
	}
	return res
}

// reachesCallee: fn calls the named function directly or through in-package
// static calls of the given depth (helpers extracted from the anchor).
func reachesCallee(p *Program, fn *ssa.Function, name string, depth int) bool {
	dc := directCallees(fn)
	if dc[name] {
		return true
	}
	if depth == 0 {
		return false
	}
	for k := range dc {
		if g := p.Func(k); g != nil && g != fn && reachesCallee(p, g, name, depth-1) {
			return true
		}
	}
	return false
}

// findCompactionWriter: the function that builds a merged view and rewrites
// it record by record (calls NewMerged and Iterator.NextRef).
func findCompactionWriter(p *Program) *ssa.Function {
	// candidates reach all three of NewMerged, Iterator.NextRef and Writer.AddRef
	// (directly or through extracted helpers); the anchor is the innermost one:
	// the candidate none of whose callees is a candidate itself
	cand := map[*ssa.Function]bool{}
	for _, f := range p.Funcs {
		if f.Parent() == nil && reachesCallee(p, f, "NewMerged", 3) && reachesCallee(p, f, "(*Iterator).NextRef", 3) && reachesCallee(p, f, "(*Writer).AddRef", 3) {
			cand[f] = true
		}
	}
	var found []*ssa.Function
	for f := range cand {
		inner := true
		for k := range directCallees(f) {
			if g := p.Func(k); g != nil && g != f && cand[g] {
				inner = false
			}
		}
		if inner {
			found = append(found, f)
		}
	}
	if len(found) != 1 {
		fatalf("unresolved anchor: compaction rewrite function (copies Iterator.NextRef into Writer.AddRef over a NewMerged view): %d candidates", len(found))
	}
	return found[0]
}

type compactAnalysis struct {
	fn      *ssa.Function
	c       *simClient
	x       *Exec
	first   *Term
	last    *Term
	exp     *Term
	rawViol []string
}

var compactCache *compactAnalysis

func analyseCompaction(p *Program) *compactAnalysis {
	if compactCache != nil {
		return compactCache
	}
	fn := findCompactionWriter(p)
	a := &compactAnalysis{fn: fn}
	cfg := &simCfg{
		Event: map[string]bool{"(*Writer).AddRef": true, "(*Writer).AddLog": true, "(*Writer).SetLimits": true, "NewMerged": true,
			"(*Iterator).NextRef": true, "(*Iterator).NextLog": true},
		Pure: map[string]bool{"(*RefRecord).IsDeletion": true, "(*LogRecord).IsDeletion": true, "(*Reader).MinUpdateIndex": true, "(*Reader).MaxUpdateIndex": true,
			"(*Reader).Name": true},
		Opaque:       map[string]bool{"(*Merged).SeekRef": true, "(*Merged).SeekLog": true, "NewWriter": true},
		NormSubslice: true,
		UniqueMake:   true,
		PreciseExits: true,
		OnStoreHook: func(c *simClient, x *Exec, st *State, fr *Frame, pos token.Pos, addr, val, old *Term) {
			if addr.Op == "field" && addr.Aux == "Merged.suppressDeletions" && val != tFalse {
				a.rawViol = append(a.rawViol, p.pos(pos))
			}
			if root := rootOf(addr); root.Op == "alloc" && root != addr {
				if ep, ok := st.mem["epoch:"+root.key]; ok {
					c.g(st).flags["recmod:"+root.key+"@"+ep.val.key] = tTrue
				}
			}
		},
	}
	a.c, a.x = runSim(p, fn, cfg, nil)
	for _, pa := range fn.Params {
		if pt, ok := pa.Type().(*types.Pointer); ok {
			if n, ok := pt.Elem().(*types.Named); ok && n.Obj().Name() == "LogExpirationConfig" {
				a.exp = mk("param", funcKey(fn)+"."+pa.Name(), pa.Type())
			}
		}
	}
	if a.exp == nil {
		fatalf("unresolved anchor: expiry configuration parameter of %s", funcKey(fn))
	}
	compactCache = a
	return a
}

// rangeBounds recovers the bounds (first,last) of the table range from the
// list handed to NewMerged: members stack[i] with facts first <= i <= last.
func (a *compactAnalysis) rangeBounds(r *Report, p *Program) {
	intParams := map[string]*Term{}
	for _, pa := range a.fn.Params {
		if b, ok := pa.Type().Underlying().(*types.Basic); ok && b.Info()&types.IsInteger != 0 {
			t := mk("param", funcKey(a.fn)+"."+pa.Name(), pa.Type())
			intParams[t.key] = t
		}
	}
	for _, s := range a.c.Samples {
		if s.Kind != "ret" {
			continue
		}
		for _, ev := range s.Events {
			if ev.Op != "ev" || ev.Aux != "NewMerged" {
				continue
			}
			members := listMembers(ev.Args[0])
			if ms := ev.Args[0]; ms.Op == "madeslice" {
				// a slice made to size and filled by index: its members are what was stored
				members = nil
				var ks []string
				for k, cl := range s.St.mem {
					if cl.addr != nil && cl.addr.Op == "index" && cl.addr.Args[0] == ms && cl.val != nil {
						ks = append(ks, k)
					}
				}
				sort.Strings(ks)
				for _, k := range ks {
					members = append(members, s.St.mem[k].val)
				}
			}
			for _, m := range members {
				if os.Getenv("RSA_DEBUG") == "13" {
					fmt.Fprintf(os.Stderr, "NewMerged member %s\n", m.key)
				}
				if m.Op != "elem" {
					r.violate("COMPACT-RANGE", funcKey(a.fn)+" / tables handed to NewMerged", p.pos(a.fn.Pos()), "the merged view of the compaction is not built from elements of the stack: "+m.String(), nil)
					return
				}
				idx := m.Args[1]
				if sub := m.Args[0]; sub.Op == "subslice" && len(sub.Args) == 3 {
					// stack[first : last+1] handed to a helper that ranges over it
					lo, hi := sub.Args[1], sub.Args[2]
					if _, ok := intParams[lo.key]; ok && a.first == nil {
						a.first = lo
					}
					if hi.Op == "bin" && hi.Aux == "+" && len(hi.Args) == 2 {
						if c, ok := constInt(hi.Args[1]); ok && c == 1 {
							if _, ok := intParams[hi.Args[0].key]; ok && a.last == nil {
								a.last = hi.Args[0]
							}
						}
					}
					continue
				}
				var ipKeys []string
				for k := range intParams {
					ipKeys = append(ipKeys, k)
				}
				sort.Strings(ipKeys)
				for _, k := range ipKeys {
					ip := intParams[k]
					if a.first == nil && provedLe(s.St, ip, idx) {
						a.first = ip
					}
					if a.last == nil && ip != a.first && provedLe(s.St, idx, ip) {
						a.last = ip
					}
				}
			}
		}
	}
}

// modifiedBetween: the record was written between Next and the Add call.
// Stores to the record's cells are visible as "recmod" flags set by the
// store hook with the epoch of the preceding Next.
func (a *compactAnalysis) modifiedBetween(s simSample, rec, nextSite, add *Term) bool {
	_, mod := s.St.ghost.(*simGhost).flags["recmod:"+rec.key+"@"+nextSite.key]
	return mod
}

func lastIndexOf(evs []*Term, names ...string) int {
	for i := len(evs) - 1; i >= 0; i-- {
		for _, n := range names {
			if evs[i].Op == "ev" && evs[i].Aux == n {
				return i
			}
		}
	}
	return -1
}

func hasEvent(evs []*Term, name string) *Term {
	for _, e := range evs {
		if e.Op == "ev" && e.Aux == name {
			return e
		}
	}
	return nil
}

func checkCompactionTables(p *Program, r *Report, wantExpiry, wantTomb bool) {
	a := analyseCompaction(p)
	fk := funcKey(a.fn)
	a.rangeBounds(r, p)
	if a.first == nil || a.last == nil {
		r.violate("COMPACT-RANGE", fk+" / merged range", p.pos(a.fn.Pos()), "cannot show that the merged view is built from exactly stack[first..last] (lower/upper bound facts missing)", nil)
		return
	}
	r.ok("COMPACT-RANGE", fk+" / merged range", fmt.Sprintf("NewMerged receives stack[i] for %s <= i <= %s", a.first, a.last))
	first0 := fAtom(tEq(a.first, tConst("0", nil)))
	nRef, nLog := 0, 0
	for _, s := range a.c.Samples {
		if s.Kind != "back" {
			continue
		}
		if !strings.Contains(s.Loop, fk) {
			continue
		}
		// the first Next of this very iteration: its record is allocated per iteration
		curMark := termByKey(s.Loop)
		i := -1
		for j, e := range s.Events {
			if e.Op == "ev" && (e.Aux == "(*Iterator).NextRef" || e.Aux == "(*Iterator).NextLog") && curMark != nil && e.Args[1].contains(curMark) {
				i = j
				break
			}
		}
		if i < 0 {
			continue
		}
		iter := s.Events[i:]
		next := iter[0]
		// an iteration in which the iterator reported exhaustion read no record
		if len(iter) > 1 && iter[1].Op == "evret" && iter[1].Args[0].Op == "tuple" && s.St.truth(iter[1].Args[0].Args[0]) == 0 {
			continue
		}
		rec := next.Args[1]
		nextSite := next.Args[len(next.Args)-1]
		// the record as Next left it: content unknown, epoch = that call
		snapAfterNext := mk("snap", "epoch="+nextSite.key, nil)
		isRef := next.Aux == "(*Iterator).NextRef"
		delName := "(*LogRecord).IsDeletion"
		addName := "(*Writer).AddLog"
		if isRef {
			delName, addName = "(*RefRecord).IsDeletion", "(*Writer).AddRef"
		}
		isDel := fAtom(mk("pcall", delName, nil, rec, snapAfterNext))
		tomb := fAnd(first0, isDel)
		add := hasEvent(iter[1:], addName)
		w := witnessOf(p, s.St.trace)
		if isRef {
			nRef++
			if add != nil {
				if add.Args[1] != rec || a.modifiedBetween(s, rec, nextSite, add) {
					r.violate("COMPACT-KEEP", fk+" / ref written is the ref read", p.pos(a.fn.Pos()), "the record handed to AddRef is not the unmodified record just read", w)
				} else {
					r.ok("COMPACT-KEEP", fk+" / ref written is the ref read", "AddRef receives the record filled by NextRef, unmodified")
				}
				continue
			}
			if wantTomb {
				if ok, cex := implied(s.St, tomb); !ok {
					r.violate("DT-TOMB-REF", fk+" / ref dropped only as a tombstone at the bottom", p.pos(a.fn.Pos()),
						"a ref record can be dropped although the range does not start at table 0 or the record is not a deletion: "+cex, w)
				} else {
					r.ok("DT-TOMB-REF", fk+" / ref dropped only as a tombstone at the bottom", "DROP => first = 0 and IsDeletion")
				}
			}
			continue
		}
		nLog++
		if !wantExpiry && !wantTomb {
			continue
		}
		x := a.x
		ld := func(base *Term, f string) *Term { return x.load(s.St, mk("field", f, nil, base), nil) }
		ldRec := func(f string) *Term { return mk("init", "", nil, mk("field", f, nil, rec), nextSite) }
		T, Max, Min := ld(a.exp, "LogExpirationConfig.Time"), ld(a.exp, "LogExpirationConfig.MaxUpdateIndex"), ld(a.exp, "LogExpirationConfig.MinUpdateIndex")
		recT, recI := ldRec("LogRecord.Time"), ldRec("LogRecord.UpdateIndex")
		zero := tConst("0", nil)
		E := fAnd(fNot(fAtom(tEq(a.exp, tNil))), fOr(
			fAnd(fAtom(tLt(zero, T)), fAtom(tLt(recT, T))),
			fAnd(fNot(fAtom(tEq(Max, zero))), fAtom(tLt(Max, recI))),
			fAnd(fNot(fAtom(tEq(Min, zero))), fAtom(tLt(recI, Min)))))
		if add != nil {
			if add.Args[1] != rec || a.modifiedBetween(s, rec, nextSite, add) {
				r.violate("COMPACT-KEEP", fk+" / log written is the log read", p.pos(a.fn.Pos()), "the record handed to AddLog is not the record just read", w)
			}
			if wantExpiry {
				if ok, cex := implied(s.St, fNot(E)); !ok {
					r.violate("DT-EXPIRY", fk+" / expired entries are dropped", p.pos(a.fn.Pos()), "a reflog entry that is expired by the configuration can be kept: "+cex, w)
				} else {
					r.ok("DT-EXPIRY", fk+" / expired entries are dropped", "KEEP => not expired")
				}
			}
			continue
		}
		if ok, cex := implied(s.St, fOr(E, tomb)); !ok {
			r.violate("DT-EXPIRY", fk+" / only expired entries (or bottom tombstones) are dropped", p.pos(a.fn.Pos()),
				"a reflog entry can be dropped although it is neither expired by the configuration nor a deletion at the bottom of the stack: "+cex, w)
		} else {
			r.ok("DT-EXPIRY", fk+" / only expired entries (or bottom tombstones) are dropped", "DROP => expired or (first = 0 and IsDeletion)")
		}
	}
	r.floor("DT-REF-ITERATIONS", nRef, 2, "ref rewrite iterations (keep and drop)")
	r.floor("DT-LOG-ITERATIONS", nLog, 2, "log rewrite iterations (keep and drop)")
	// limits and raw view
	for _, s := range a.c.Samples {
		if s.Kind != "ret" {
			continue
		}
		if sl := hasEvent(s.Events, "(*Writer).SetLimits"); sl != nil {
			stack := s.St
			_ = stack
			wantMin := "(*Reader).MinUpdateIndex"
			wantMax := "(*Reader).MaxUpdateIndex"
			sameIdx := func(x, y *Term) bool {
				if x == y {
					return true
				}
				bc := &boundsClient{arrLen: map[string]int64{}, dropped: map[string]map[string]bool{}}
				d := bc.lin(s.St, x).add(bc.lin(s.St, y), -1)
				if d.c != 0 {
					return false
				}
				for _, co := range d.coef {
					if co != 0 {
						return false
					}
				}
				return true
			}
			okMin := sl.Args[1].Op == "pcall" && sl.Args[1].Aux == wantMin && sl.Args[1].Args[0].Op == "elem" && sameIdx(sl.Args[1].Args[0].Args[1], a.first)
			okMax := sl.Args[2].Op == "pcall" && sl.Args[2].Aux == wantMax && sl.Args[2].Args[0].Op == "elem" && sameIdx(sl.Args[2].Args[0].Args[1], a.last)
			if !okMin || !okMax {
				r.violate("COMPACT-LIMITS", fk+" / limits of the output", p.pos(a.fn.Pos()), fmt.Sprintf("output limits are (%s, %s), expected (min of stack[first], max of stack[last])", sl.Args[1], sl.Args[2]), witnessOf(p, s.St.trace))
			} else {
				r.ok("COMPACT-LIMITS", fk+" / limits of the output", "SetLimits(min(stack[first]), max(stack[last]))")
			}
		}
	}
	// ERR-PROPAGATE: a path on which reading the inputs or writing the output
	// failed does not return success (the truncated table would be installed
	// and the inputs deleted)
	nErr, errBad := 0, ""
	var errW []string
	for _, s := range a.c.Samples {
		if s.Kind != "ret" || s.Panic || len(s.Vals) == 0 {
			continue
		}
		ret := s.Vals[len(s.Vals)-1]
		for _, k := range sortedFactKeys(s.St) {
			v := s.St.facts[k]
			_ = v
			t := s.St.fterm[k]
			if v || t == nil || t.Op != "eq" || len(t.Args) != 2 {
				continue
			}
			var e *Term
			if t.Args[0].isNilConst() {
				e = t.Args[1]
			} else if t.Args[1].isNilConst() {
				e = t.Args[0]
			}
			if e == nil || e.Op != "extract" || e.Typ == nil || types.TypeString(e.Typ, nil) != "error" || len(e.Args) == 0 || e.Args[0].Op != "call" {
				continue
			}
			nErr++
			if s.St.truth(tEq(ret, tNil)) != 0 {
				errBad = e.Args[0].Aux
				errW = witnessOf(p, s.St.trace)
			}
		}
	}
	if errBad != "" {
		r.violate("ERR-PROPAGATE", fk+" / a failed read or write fails the compaction", p.pos(a.fn.Pos()), "a path on which "+errBad+" returned an error can return nil: the partially written table is then committed and the source tables are deleted", errW)
	} else {
		r.ok("ERR-PROPAGATE", fk+" / a failed read or write fails the compaction", fmt.Sprintf("every one of %d error outcomes on exit paths reaches a non-nil return", nErr))
	}
	r.floor("ERR-PROPAGATE", nErr, 4, "error outcomes of iterator / writer calls on exit paths of the rewrite function")
	if len(a.rawViol) > 0 {
		r.violate("COMPACT-RAW", fk+" / compaction reads the raw merged view", a.rawViol[0], "the merged view used for compaction has deletion suppression switched on: tombstones would be lost", nil)
	} else {
		r.ok("COMPACT-RAW", fk+" / compaction reads the raw merged view", "suppressDeletions is never set on the compaction's merged view")
	}
	r.Stats["compaction.samples"] = len(a.c.Samples)
	r.Stats["compaction.abstract_steps"] = a.x.NStates
}
