package main

import (
	"fmt"
	"go/constant"
	"go/token"
	"go/types"
	"regexp"
	"sort"
	"strings"

	"golang.org/x/tools/go/ssa"
)

// wireseq (C01.1, C14): the ordered wire events of every record encoder and
// decoder, per value type, extracted from the simulated paths and compared
// with each other and with the format specification (DESIGN Appendix A.2).

type wireItem struct {
	Kind string // varint, bytes, string, u16
	Name string // record field the value is read from / stored to
}

func (w wireItem) String() string { return w.Kind + "(" + w.Name + ")" }

// seqString renders a sequence in canonical form: a length-prefixed string is
// the same bytes on the wire as a varint length followed by the bytes, so
// string(F) is written varint(len(F)), bytes(F).
func seqString(s []wireItem) string {
	var ps []string
	for _, i := range s {
		if i.Kind == "string" {
			ps = append(ps, "varint(len("+i.Name+"))", "bytes("+i.Name+")")
			continue
		}
		ps = append(ps, i.String())
	}
	return strings.Join(ps, ", ")
}

var stringItem = regexp.MustCompile(`string\((\w+)\)`)

// canonSpec brings a sequence of the specification table into the same form.
func canonSpec(s string) string {
	return stringItem.ReplaceAllString(s, "varint(len($1)), bytes($1)")
}

// specWire: record -> value type -> sequence (Appendix A.2; H = hash-sized bytes).
var specWire = map[string]map[int]string{
	"RefRecord": {
		0: "varint(UpdateIndex)",
		1: "varint(UpdateIndex), bytes(Value)",
		2: "varint(UpdateIndex), bytes(Value), bytes(TargetValue)",
		3: "varint(UpdateIndex), varint(len(Target)), bytes(Target)",
	},
	"LogRecord": {
		0: "",
		1: "bytes(Old), bytes(New), string(Name), string(Email), varint(Time), u16(TZOffset), string(Message)",
	},
	"indexRecord": {
		0: "varint(Offset)",
	},
}

var wireEvents = map[string]bool{"putVarInt": true, "getVarInt": true, "encodeString": true, "decodeString": true, "builtin:copy": true,
	"(encoding/binary.bigEndian).PutUint16": true, "(encoding/binary.bigEndian).Uint16": true}

// fieldOfValue names the receiver field whose cell holds v (or whose initial value v is).
func fieldOfValue(st *State, recv *Term, tname string, v *Term) string {
	for v.Op == "subslice" {
		v = v.Args[0]
	}
	if v.Op == "init" && v.Args[0].Op == "field" && v.Args[0].Args[0] == recv {
		return strings.TrimPrefix(v.Args[0].Aux, tname+".")
	}
	var hits []string
	for _, cl := range st.mem {
		if cl.addr != nil && cl.addr.Op == "field" && cl.addr.Args[0] == recv && cl.val == v {
			hits = append(hits, strings.TrimPrefix(cl.addr.Aux, tname+"."))
		}
	}
	sort.Strings(hits)
	if len(hits) > 0 {
		return hits[0]
	}
	return ""
}

func describeSrc(st *State, recv *Term, tname string, v *Term) string {
	if f := fieldOfValue(st, recv, tname, v); f != "" {
		return f
	}
	switch v.Op {
	case "len":
		return "len(" + describeSrc(st, recv, tname, v.Args[0]) + ")"
	case "const":
		return v.Aux
	case "bin":
		return "(" + describeSrc(st, recv, tname, v.Args[0]) + v.Aux + describeSrc(st, recv, tname, v.Args[1]) + ")"
	case "elem":
		return describeSrc(st, recv, tname, v.Args[0]) + "[" + describeSrc(st, recv, tname, v.Args[1]) + "]"
	}
	return "?" + v.Op
}

func encodeSeq(s simSample, recv *Term, tname string) []wireItem {
	var seq []wireItem
	for _, e := range s.Events {
		if e.Op != "ev" {
			continue
		}
		switch e.Aux {
		case "putVarInt":
			seq = append(seq, wireItem{"varint", describeSrc(s.St, recv, tname, e.Args[1])})
		case "encodeString":
			seq = append(seq, wireItem{"string", describeSrc(s.St, recv, tname, e.Args[1])})
		case "builtin:copy":
			seq = append(seq, wireItem{"bytes", describeSrc(s.St, recv, tname, e.Args[1])})
		case "(encoding/binary.bigEndian).PutUint16":
			seq = append(seq, wireItem{"u16", describeSrc(s.St, recv, tname, e.Args[len(e.Args)-2])})
		}
	}
	return seq
}

// whereStored names the receiver field that receives value r (directly, or as a length).
func whereStored(st *State, recv *Term, tname string, r *Term) (string, bool) {
	var direct, asLen []string
	for _, cl := range st.mem {
		if cl.addr == nil || cl.addr.Op != "field" || cl.addr.Args[0] != recv {
			continue
		}
		f := strings.TrimPrefix(cl.addr.Aux, tname+".")
		if cl.val == r {
			direct = append(direct, f)
		} else if cl.val.Op == "subslice" && cl.val.Args[2] == r {
			asLen = append(asLen, f)
		}
	}
	sort.Strings(direct)
	sort.Strings(asLen)
	if len(direct) > 0 {
		return direct[0], false
	}
	if len(asLen) > 0 {
		return asLen[0], true
	}
	return "", false
}

func decodeSeq(s simSample, recv *Term, tname string) []wireItem {
	var seq []wireItem
	for i, e := range s.Events {
		if e.Op != "ev" {
			continue
		}
		var res *Term
		if i+1 < len(s.Events) && s.Events[i+1].Op == "evret" {
			res = s.Events[i+1].Args[0]
		}
		switch e.Aux {
		case "getVarInt":
			if res == nil || res.Op != "tuple" {
				continue
			}
			f, isLen := whereStored(s.St, recv, tname, res.Args[0])
			switch {
			case f != "" && isLen:
				seq = append(seq, wireItem{"varint", "len(" + f + ")"}, wireItem{"bytes", f})
			case f != "":
				seq = append(seq, wireItem{"varint", f})
			default:
				seq = append(seq, wireItem{"varint", "?"})
			}
		case "decodeString":
			if res == nil || res.Op != "tuple" {
				continue
			}
			f, _ := whereStored(s.St, recv, tname, res.Args[1])
			seq = append(seq, wireItem{"string", f})
		case "builtin:copy":
			seq = append(seq, wireItem{"bytes", fieldOfValue(s.St, recv, tname, e.Args[0])})
		case "(encoding/binary.bigEndian).Uint16":
			f := ""
			if res != nil {
				f, _ = whereStored(s.St, recv, tname, res)
			}
			seq = append(seq, wireItem{"u16", f})
		}
	}
	return seq
}

// inWriterDomain: the field-emptiness facts of an encode path are consistent
// with a record the writer documents as valid.  For refs: deletion, value,
// value + peeled value, or symbolic target (a peeled value without a value,
// or a target together with a value, is outside the domain).
func inWriterDomain(st *State, recv *Term, tname string) bool {
	if tname != "RefRecord" {
		return true
	}
	nonEmpty := func(f string) int {
		v := mk("init", "", nil, mk("field", "RefRecord."+f, nil, recv))
		return st.truth(tLt(tConst("0", nil), mk("len", "", nil, v)))
	}
	v, t, s := nonEmpty("Value"), nonEmpty("TargetValue"), nonEmpty("Target")
	for _, d := range [][3]int{{0, 0, 0}, {1, 0, 0}, {1, 1, 0}, {0, 0, 1}} {
		ok := true
		for i, got := range []int{v, t, s} {
			if got >= 0 && got != d[i] {
				ok = false
			}
		}
		if ok {
			// undecided atoms could still leave the domain; require all three decided
			if v >= 0 && t >= 0 && s >= 0 {
				return true
			}
		}
	}
	return false
}

// factsCompatible: no atom is decided differently by the two paths.
func factsCompatible(a, b *State) bool {
	for _, k := range sortedFactKeys(a) {
		v := a.facts[k]
		_ = v
		if v2, ok := b.facts[k]; ok && v2 != v {
			return false
		}
	}
	return true
}

func checkWireSeq(p *Program, r *Report) {
	for _, tname := range []string{"RefRecord", "LogRecord", "indexRecord"} {
		enc := p.MustFunc("(*" + tname + ").encode")
		dec := p.MustFunc("(*" + tname + ").decode")
		vt := p.MustFunc("(*" + tname + ").valType")
		cfg := func() *simCfg {
			c := &simCfg{Event: wireEvents, Keep: map[string]bool{"builtin:copy": true, "putVarInt": true, "encodeString": true, "(encoding/binary.bigEndian).PutUint16": true},
				Pure: map[string]bool{"(*LogRecord).IsDeletion": false}, Opaque: map[string]bool{"log.Panicf": true, "(*LogRecord).decodeKey": true},
				Inline: map[string]bool{"(*LogRecord).IsDeletion": true}, NoInlineDefault: true, NoLoopSamples: true, UniqueMake: true}
			// helpers of the codec (copy a hash and step over it, ...) are part of it
			for _, f := range []*ssa.Function{enc, dec} {
				for _, h := range withHelpers(p, f)[1:] {
					if k := funcKey(h); !c.Event[k] && !c.Opaque[k] && !c.Keep[k] && h.Parent() == nil && h != enc && h != dec {
						c.Inline[k] = true
					}
				}
			}
			return c
		}
		ce, _ := runSim(p, enc, cfg(), nil)
		recvE := mk("param", funcKey(enc)+"."+enc.Params[0].Name(), enc.Params[0].Type())
		// value type of each encode path: evaluate valType() on the same receiver
		cv, _ := runSim(p, vt, &simCfg{Inline: map[string]bool{"(*LogRecord).IsDeletion": true}, NoInlineDefault: true, NoLoopSamples: true}, []*Term{recvE})
		encByVT := map[int]map[string]bool{}
		for _, s := range ce.Samples {
			if s.Kind != "ret" || s.Panic || len(s.Vals) != 2 || s.Vals[1] != tTrue {
				continue
			}
			if !inWriterDomain(s.St, recvE, tname) {
				continue
			}
			seq := seqString(encodeSeq(s, recvE, tname))
			for _, v := range cv.Samples {
				if v.Kind != "ret" || v.Panic || !v.Vals[0].isConst() || !factsCompatible(s.St, v.St) {
					continue
				}
				n := 0
				fmt.Sscanf(v.Vals[0].Aux, "%d", &n)
				if encByVT[n] == nil {
					encByVT[n] = map[string]bool{}
				}
				encByVT[n][seq] = true
			}
		}
		cd, _ := runSim(p, dec, cfg(), nil)
		recvD := mk("param", funcKey(dec)+"."+dec.Params[0].Name(), dec.Params[0].Type())
		vtParam := mk("param", funcKey(dec)+"."+dec.Params[3].Name(), dec.Params[3].Type())
		decByVT := map[int]map[string]bool{}
		for n := range specWire[tname] {
			for _, s := range cd.Samples {
				if s.Kind != "ret" || s.Panic || len(s.Vals) != 2 || s.St.truth(s.Vals[1]) == 0 {
					continue
				}
				// path consistent with valType == n ?
				ok := true
				for _, k := range sortedFactKeys(s.St) {
					v := s.St.facts[k]
					_ = v
					t := s.St.fterm[k]
					if t.Op == "eq" && (t.Args[0] == vtParam || t.Args[1] == vtParam) {
						c := t.Args[0]
						if c == vtParam {
							c = t.Args[1]
						}
						m := -1
						fmt.Sscanf(c.Aux, "%d", &m)
						if (m == n) != v {
							ok = false
						}
					}
				}
				if !ok {
					continue
				}
				if decByVT[n] == nil {
					decByVT[n] = map[string]bool{}
				}
				decByVT[n][seqString(decodeSeq(s, recvD, tname))] = true
			}
		}
		var vts []int
		for n := range specWire[tname] {
			vts = append(vts, n)
		}
		sort.Ints(vts)
		for _, n := range vts {
			want := canonSpec(specWire[tname][n])
			setStr := func(m map[string]bool) string {
				var ks []string
				for k := range m {
					ks = append(ks, "["+k+"]")
				}
				sort.Strings(ks)
				return strings.Join(ks, " | ")
			}
			e, d := setStr(encByVT[n]), setStr(decByVT[n])
			key := fmt.Sprintf("%s value type %d", tname, n)
			if e != d || len(encByVT[n]) != 1 {
				r.violate("WIRE-AGREE", key+" / encode and decode agree", p.pos(enc.Pos()), fmt.Sprintf("the encoder writes %s but the decoder reads %s for value type %d", e, d, n), nil)
			} else {
				r.ok("WIRE-AGREE", key+" / encode and decode agree", e)
			}
			if e != "["+want+"]" {
				r.violate("WIRE-SPEC", key+" / sequence required by the format", p.pos(enc.Pos()), fmt.Sprintf("the encoder writes %s, the format requires [%s]", e, want), nil)
			} else {
				r.ok("WIRE-SPEC", key+" / sequence required by the format", want)
			}
		}
	}
	checkKeyBits(p, r)
}

// shiftMaskConsts lists the constant operands of <<, >> and & in a function.
func shiftMaskConsts(f *ssa.Function) (shl, shr, and []int64) {
	for _, b := range f.Blocks {
		for _, ins := range b.Instrs {
			bo, ok := ins.(*ssa.BinOp)
			if !ok {
				continue
			}
			c, ok := bo.Y.(*ssa.Const)
			if !ok || c.Value == nil {
				continue
			}
			v, ok := constant.Int64Val(constant.ToInt(c.Value))
			if !ok {
				continue
			}
			switch bo.Op {
			case token.SHL:
				shl = append(shl, v)
			case token.SHR:
				shr = append(shr, v)
			case token.AND:
				and = append(and, v)
			}
		}
	}
	return
}

// checkKeyBits: suffix_len<<3 | value_type in the key encoder, >>3 and &7 in
// both key decoders; the reversed big-endian update index of log keys.
func checkKeyBits(p *Program, r *Report) {
	shl, _, _ := shiftMaskConsts(p.MustFunc("encodeKey"))
	_, shr1, and1 := shiftMaskConsts(p.MustFunc("decodeKey"))
	_, shr2, _ := shiftMaskConsts(p.MustFunc("decodeRestartKey"))
	ok := len(shl) == 1 && len(shr1) == 1 && len(shr2) == 1 && len(and1) == 1 && shl[0] == 3 && shr1[0] == 3 && shr2[0] == 3 && and1[0] == 7
	if !ok {
		r.violate("KEY-BITS", "key codec / suffix_len<<3 | value_type", p.pos(p.MustFunc("encodeKey").Pos()), fmt.Sprintf("shift/mask constants of the key codec disagree or differ from the format (3 bits): encodeKey << %v, decodeKey >> %v & %v, decodeRestartKey >> %v", shl, shr1, and1, shr2), nil)
	} else {
		r.ok("KEY-BITS", "key codec / suffix_len<<3 | value_type", "<<3 in the encoder, >>3 and &7 in both decoders")
	}
	// log key: name, NUL, 8 bytes big-endian of MaxUint64 - update index
	k := p.MustFunc("(*LogRecord).key")
	dk := p.MustFunc("(*LogRecord).decodeKey")
	enc := len(callsDirect(k, "(encoding/binary.bigEndian).PutUint64")) == 1 && len(callsDirect(k, "revInt64")) == 1
	dec := len(callsDirect(dk, "(encoding/binary.bigEndian).Uint64")) == 1 && len(callsDirect(dk, "revInt64")) == 1
	arr9 := false
	for _, b := range k.Blocks {
		for _, ins := range b.Instrs {
			if a, ok := ins.(*ssa.Alloc); ok {
				if at, ok := a.Type().(*types.Pointer).Elem().(*types.Array); ok && at.Len() == 9 {
					arr9 = true
				}
			}
		}
	}
	nine := false
	for _, b := range dk.Blocks {
		for _, ins := range b.Instrs {
			if bo, ok := ins.(*ssa.BinOp); ok && bo.Op == token.SUB {
				if c, ok := bo.Y.(*ssa.Const); ok && c.Value != nil && c.Value.ExactString() == "9" {
					nine = true
				}
			}
		}
	}
	rev := p.MustFunc("revInt64")
	revOK := false
	for _, b := range rev.Blocks {
		for _, ins := range b.Instrs {
			if bo, ok := ins.(*ssa.BinOp); ok && bo.Op == token.SUB {
				if c, ok := bo.X.(*ssa.Const); ok && c.Value != nil && c.Value.ExactString() == "18446744073709551615" {
					revOK = true
				}
			}
		}
	}
	if enc && dec && arr9 && nine && revOK {
		r.ok("LOGKEY-CODEC", "log key / name NUL reversed big-endian update index", "key() and decodeKey() both use a 9-byte suffix, big-endian uint64 and MaxUint64 - index")
	} else {
		r.violate("LOGKEY-CODEC", "log key / name NUL reversed big-endian update index", p.pos(k.Pos()), fmt.Sprintf("log key encoder and decoder disagree or differ from the format (encoder uses PutUint64+rev: %v, decoder Uint64+rev: %v, 9-byte suffix: %v/%v, MaxUint64 - x: %v)", enc, dec, arr9, nine, revOK), nil)
	}
}
