package main

import (
	"fmt"
	"go/token"
	"go/types"
	"os"
	"sort"
	"strings"

	"golang.org/x/tools/go/ssa"
)

// RefsFor and point lookups (C11): DELTA, SEEK-COMPARE, DT-FILTER,
// DOUBLE-CHECK, OBJ-INDEX-SOURCE; plus the nil contracts of props_reader.go.

func callsDirect(f *ssa.Function, name string) []ssa.CallInstruction {
	var res []ssa.CallInstruction
	for _, b := range f.Blocks {
		for _, ins := range b.Instrs {
			ci, ok := ins.(ssa.CallInstruction)
			if !ok {
				continue
			}
			c := ci.Common()
			n := ""
			if cal := c.StaticCallee(); cal != nil {
				n = funcKey(cal)
			} else if c.IsInvoke() {
				n = methodKey(c.Method.FullName())
			}
			if n == name {
				res = append(res, ci)
			}
		}
	}
	return res
}

// fromParam: the value is (a conversion / assertion of) a parameter.
func fromParam(v ssa.Value) bool {
	switch x := v.(type) {
	case *ssa.Parameter:
		return true
	case *ssa.MakeInterface:
		return fromParam(x.X)
	case *ssa.ChangeInterface:
		return fromParam(x.X)
	case *ssa.TypeAssert:
		return fromParam(x.X)
	case *ssa.Extract:
		if ta, ok := x.Tuple.(*ssa.TypeAssert); ok {
			return fromParam(ta.X)
		}
	}
	return false
}

func checkRefsFor(p *Program, r *Report) {
	biNext := "(*blockIter).Next"
	// ---- DELTA
	nDelta := 0
	for _, f := range p.Funcs {
		if f.Parent() != nil {
			continue
		}
		escaping := false
		for _, ci := range callsDirect(f, biNext) {
			if fromParam(ci.Common().Args[1]) {
				escaping = true
			}
		}
		if !escaping {
			continue
		}
		nDelta++
		fk := funcKey(f)
		cfg := &simCfg{Event: map[string]bool{biNext: true}, NoInlineDefault: true}
		c, _ := runSim(p, f, cfg, nil)
		for _, s := range c.Samples {
			if s.Kind != "ret" || s.Panic || len(s.Vals) == 0 || s.Vals[0] == tFalse {
				continue
			}
			ev := hasEvent(s.Events, biNext)
			if ev == nil {
				continue
			}
			// result of Next on this path: ok must be possibly true
			okT := (*Term)(nil)
			for i, e := range s.Events {
				if e == ev && i+1 < len(s.Events) && s.Events[i+1].Args[0].Op == "tuple" {
					okT = s.Events[i+1].Args[0].Args[0]
				}
			}
			if okT != nil && s.St.truth(okT) == 0 {
				continue
			}
			// not a ref record on this path (type switch said no)
			skip := false
			for _, k := range sortedFactKeys(s.St) {
				v := s.St.facts[k]
				_ = v
				if strings.Contains(k, "assertok") && !v {
					skip = true
				}
			}
			if skip {
				continue
			}
			rec := ev.Args[1]
			site := ev.Args[len(ev.Args)-1]
			cellK := mk("field", "RefRecord.UpdateIndex", nil, rec).key
			cl, has := s.St.mem[cellK]
			old := mk("init", "", nil, mk("field", "RefRecord.UpdateIndex", nil, rec), site)
			good := false
			if has && cl.val.Op == "bin" && cl.val.Aux == "+" {
				a, b := cl.val.Args[0], cl.val.Args[1]
				for i := 0; i < 2; i++ {
					if a == old && strings.Contains(b.key, "header.MinUpdateIndex") && strings.Contains(b.key, "Reader.header") {
						good = true
					}
					a, b = b, a
				}
			}
			key := fk + " / ref records handed to the caller carry absolute update indices"
			if !good && os.Getenv("RSA_DEBUG") == "7" {
				fmt.Fprintf(os.Stderr, "DELTA %s has=%v old=%s\n", fk, has, old.key)
				if has {
					fmt.Fprintf(os.Stderr, "   val=%s\n", cl.val.key)
				}
				for k := range s.St.mem {
					if strings.Contains(k, "UpdateIndex") {
						fmt.Fprintf(os.Stderr, "   cell %s\n", k)
					}
				}
			}
			if !good {
				r.violate("DELTA", key, p.pos(f.Pos()), "a RefRecord decoded from a block (update index stored relative to the table minimum) can reach the caller without the table's minimum update index added back", witnessOf(p, s.St.trace))
			} else {
				r.ok("DELTA", key, "UpdateIndex += header.MinUpdateIndex on every yielding path")
			}
		}
	}
	r.floor("DELTA", nDelta, 2, "functions that pass a caller's record to the block iterator")
	// the writer side: AddRef stores UpdateIndex - min
	{
		f := p.MustFunc("(*Writer).AddRef")
		cfg := &simCfg{Event: map[string]bool{"(*Writer).add": true}, Keep: map[string]bool{"(*Writer).add": true}, Opaque: map[string]bool{"(*Writer).indexHash": true}, NoInlineDefault: true}
		c, _ := runSim(p, f, cfg, nil)
		n := 0
		for _, s := range c.Samples {
			ev := hasEvent(s.Events, "(*Writer).add")
			if s.Kind != "ret" || ev == nil {
				continue
			}
			n++
			rec := ev.Args[1]
			cl, has := s.St.mem[mk("field", "RefRecord.UpdateIndex", nil, rec).key]
			good := has && cl.val.Op == "bin" && cl.val.Aux == "-" && strings.Contains(cl.val.Args[1].key, "Writer.minUpdateIndex") && strings.Contains(cl.val.Args[0].key, "RefRecord.UpdateIndex")
			if !good {
				r.violate("DELTA", "(*Writer).AddRef / update index written relative to the minimum", p.pos(f.Pos()), "the record handed to the block writer does not carry UpdateIndex - minUpdateIndex", witnessOf(p, s.St.trace))
			} else {
				r.ok("DELTA", "(*Writer).AddRef / update index written relative to the minimum", "cpy.UpdateIndex = r.UpdateIndex - w.minUpdateIndex")
			}
		}
		r.floor("DELTA.writer", n, 1, "paths of AddRef reaching the block writer")
	}
	// ---- SEEK-COMPARE
	type lookup struct{ seek, next, nameField string }
	lookups := []lookup{
		{"method:(Table).SeekRef", "(*Iterator).NextRef", "RefRecord.RefName"},
		{"method:(Table).SeekLog", "(*Iterator).NextLog", "LogRecord.RefName"},
	}
	nCmp := 0
	// a helper that seeks, reads one record and hands the record itself back
	// (a pointer to a record type among its results) leaves the comparison to
	// its callers: it is analysed inlined into each of them
	returnsRecord := func(f *ssa.Function) bool {
		res := f.Signature.Results()
		for i := 0; i < res.Len(); i++ {
			t := res.At(i).Type()
			if pt, ok := t.(*types.Pointer); ok {
				t = pt.Elem()
			}
			if n, ok := t.(*types.Named); ok && strings.HasSuffix(n.Obj().Name(), "Record") {
				return true
			}
		}
		return false
	}
	for _, f := range p.Funcs {
		if f.Parent() != nil {
			continue
		}
		for _, lk := range lookups {
			inline := map[string]bool{}
			direct := len(callsDirect(f, lk.seek)) > 0 && len(callsDirect(f, lk.next)) > 0
			if direct && returnsRecord(f) && !f.Object().Exported() {
				continue
			}
			if !direct {
				for k := range directCallees(f) {
					if h := p.Func(k); h != nil && h != f && returnsRecord(h) && !h.Object().Exported() &&
						len(callsDirect(h, lk.seek)) > 0 && len(callsDirect(h, lk.next)) > 0 {
						inline[k] = true
					}
				}
				if len(inline) == 0 {
					continue
				}
			}
			fk := funcKey(f)
			cfg := &simCfg{Event: map[string]bool{lk.seek: true, lk.next: true, "method:(iterator).Next": true}, Pure: map[string]bool{"bytes.Compare": true, "bytes.Equal": true, "strings.HasPrefix": true}, NoInlineDefault: true, Inline: inline}
			c, _ := runSim(p, f, cfg, nil)
			// a prefix scan (result decided by HasPrefix) is not a point lookup
			isPrefixScan := len(callsDirect(f, "strings.HasPrefix")) > 0
			if isPrefixScan {
				continue
			}
			nCmp++
			for _, s := range c.Samples {
				if s.Panic || (s.Kind != "ret" && s.Kind != "back") {
					continue
				}
				var seekEv, nextEv *Term
				var nextRes *Term
				for i, e := range s.Events {
					if e.Op != "ev" {
						continue
					}
					if e.Aux == lk.seek {
						seekEv, nextEv = e, nil
					}
					if e.Aux == lk.next && seekEv != nil {
						nextEv = e
						if i+1 < len(s.Events) {
							nextRes = s.Events[i+1].Args[0]
						}
					}
				}
				if seekEv == nil || nextEv == nil || nextRes == nil || nextRes.Op != "tuple" {
					continue
				}
				if s.St.truth(nextRes.Args[0]) == 0 {
					continue // nothing found
				}
				rec := nextEv.Args[1]
				site := nextEv.Args[len(nextEv.Args)-1]
				name := seekEv.Args[1]
				got := mk("init", "", nil, mk("field", lk.nameField, nil, rec), site)
				cmp := tEq(got, name)
				// outcome "found": returns the record / true, or goes on using it
				found := false
				if s.Kind == "ret" && len(s.Vals) > 0 {
					v := s.Vals[0]
					if v == cmp {
						continue // returns the comparison itself
					}
					if !v.isNilConst() && v != tFalse && s.St.truth(tEq(s.Vals[len(s.Vals)-1], tNil)) != 0 {
						found = true
					}
				}
				if s.Kind == "back" {
					continue
				}
				if !found {
					continue
				}
				key := fk + " / record found by a point lookup has the name sought"
				if s.St.truth(cmp) != 1 {
					r.violate("SEEK-COMPARE", key, p.pos(f.Pos()), "after seeking to a name and reading one record, the record is used as the record of that name without its name being compared (the seek lands on the next record when the name is absent)", witnessOf(p, s.St.trace))
				} else {
					r.ok("SEEK-COMPARE", key, "found => record.RefName == name sought")
				}
			}
		}
	}
	r.floor("SEEK-COMPARE", nCmp, 3, "point-lookup functions (seek + single next)")
	// ---- DT-FILTER: both RefsFor filters
	nFil := 0
	for _, f := range p.Funcs {
		if f.Parent() != nil || f.Name() != "Next" || f.Signature.Recv() == nil {
			continue
		}
		// a filter: a Next method whose receiver type has a []byte field (the oid)
		rt := f.Signature.Recv().Type()
		if pt, ok := rt.(*types.Pointer); ok {
			rt = pt.Elem()
		}
		st, ok := rt.Underlying().(*types.Struct)
		if !ok {
			continue
		}
		hasOid := false
		for i := 0; i < st.NumFields(); i++ {
			if sl, ok := st.Field(i).Type().(*types.Slice); ok {
				if b, ok := sl.Elem().(*types.Basic); ok && b.Kind() == types.Byte {
					hasOid = true
				}
			}
		}
		if !hasOid {
			continue
		}
		nFil++
		fk := funcKey(f)
		cfg := &simCfg{Event: map[string]bool{"method:(iterator).Next": true, "(*blockIter).Next": true, "method:(Table).SeekRef": true, "(*Iterator).NextRef": true, "(*indexedTableRefIter).nextBlock": true},
			Pure: map[string]bool{"bytes.Compare": true, "bytes.Equal": true}, Opaque: map[string]bool{"fmt.Errorf": true, "newRecord": true}}
		c, xsim := runSim(p, f, cfg, nil)
		recParam := mk("param", fk+"."+f.Params[1].Name(), f.Params[1].Type())
		cmpAtoms := func(s simSample) (val, tgt *Term) {
			// prefer the comparisons made on the record as it is at the end of the
			// path (with nested loops several generations of comparisons exist)
			st2 := s.St.clone()
			curV := xsim.load(st2, mk("field", "RefRecord.Value", nil, recParam), nil)
			curT := xsim.load(st2, mk("field", "RefRecord.TargetValue", nil, recParam), nil)
			for _, k := range sortedFactKeys(s.St) {
				s.St.fterm[k].walk(func(u *Term) {
					if u.Op == "pcall" && (u.Aux == "bytes.Compare" || u.Aux == "bytes.Equal") {
						for _, a := range u.Args {
							if a == curV && val == nil {
								val = u
							}
							if a == curT && tgt == nil {
								tgt = u
							}
						}
					}
				})
			}
			if val != nil || tgt != nil {
				return
			}
			// the comparisons of the current iteration (facts about earlier
			// iterations carry the loop's summary mark); deterministic choice
			var keys []string
			for _, k := range sortedFactKeys(s.St) {
				keys = append(keys, k)
			}
			sort.Strings(keys)
			better := func(old, nu *Term) bool {
				if old == nil {
					return true
				}
				oc, nc := old.containsOp("loopcur"), nu.containsOp("loopcur")
				if oc != nc {
					return nc
				}
				return nu.key < old.key
			}
			for _, k := range keys {
				s.St.fterm[k].walk(func(u *Term) {
					if u.Op == "pcall" && (u.Aux == "bytes.Compare" || u.Aux == "bytes.Equal") {
						for _, a := range u.Args {
							if strings.Contains(a.key, "RefRecord.Value") && better(val, u) {
								val = u
							}
							if strings.Contains(a.key, "RefRecord.TargetValue") && better(tgt, u) {
								tgt = u
							}
						}
					}
				})
			}
			return
		}
		match := func(u *Term) *Formula {
			if u.Aux == "bytes.Equal" {
				return fAtom(u)
			}
			return fAtom(tEq(u, tConst("0", nil)))
		}
		for _, s := range c.Samples {
			if s.Panic {
				continue
			}
			v, tg := cmpAtoms(s)
			w := witnessOf(p, s.St.trace)
			switch {
			case s.Kind == "ret" && len(s.Vals) > 0 && s.Vals[0] == tTrue:
				key := fk + " / yields only refs pointing at the object"
				if v == nil && tg == nil {
					r.violate("DT-FILTER", key, p.pos(f.Pos()), "a ref is yielded without its value or peeled value having been compared with the object id", w)
					continue
				}
				var alts []*Formula
				if v != nil {
					alts = append(alts, match(v))
				}
				if tg != nil {
					alts = append(alts, match(tg))
				}
				if ok, cex := implied(s.St, fOr(alts...)); !ok {
					r.violate("DT-FILTER", key, p.pos(f.Pos()), "a ref can be yielded although neither its value nor its peeled value equals the object id: "+cex, w)
				} else {
					r.ok("DT-FILTER", key, "yield => Value = oid or TargetValue = oid")
				}
			case s.Kind == "back":
				// a skip after a record was read: only if neither matches
				last := ""
				for _, e := range s.Events {
					if e.Op == "ev" {
						last = e.Aux
					}
				}
				if last == "(*indexedTableRefIter).nextBlock" || (v == nil && tg == nil) {
					continue
				}
				key := fk + " / skips only refs not pointing at the object"
				if v == nil || tg == nil {
					r.violate("DT-FILTER", key, p.pos(f.Pos()), "a ref is skipped after comparing only one of value / peeled value with the object id", w)
					continue
				}
				if ok, cex := implied(s.St, fAnd(fNot(match(v)), fNot(match(tg)))); !ok {
					r.violate("DT-FILTER", key, p.pos(f.Pos()), "a ref whose value or peeled value equals the object id can be skipped: "+cex, w)
				} else {
					r.ok("DT-FILTER", key, "skip => Value != oid and TargetValue != oid")
				}
			}
		}
	}
	r.floor("DT-FILTER", nFil, 2, "RefsFor filters")
	// ---- DOUBLE-CHECK: the merged RefsFor re-checks against the merged view, a single table does not
	for _, name := range []string{"(*Merged).RefsFor", "(*Reader).RefsFor"} {
		f := p.MustFunc(name)
		cfg := &simCfg{NoInlineDefault: true, Opaque: map[string]bool{}}
		c, _ := runSim(p, f, cfg, nil)
		recv := mk("param", name+"."+f.Params[0].Name(), nil)
		n := 0
		for _, s := range c.Samples {
			if s.Kind != "ret" || s.Panic || s.St.truth(tEq(s.Vals[1], tNil)) == 0 {
				continue
			}
			for _, cl := range s.St.mem {
				if cl.addr != nil && cl.addr.Op == "field" && cl.addr.Aux == "filteringRefIterator.doubleCheck" {
					n++
					want := tBool(name == "(*Merged).RefsFor")
					tabCell, hasTab := s.St.mem[mk("field", "filteringRefIterator.tab", nil, cl.addr.Args[0]).key]
					key := name + " / double check against the view that was asked"
					if cl.val != want || (want == tTrue && (!hasTab || tabCell.val != recv)) {
						r.violate("DOUBLE-CHECK", key, p.pos(f.Pos()), fmt.Sprintf("RefsFor builds its filter with doubleCheck=%s (want %s) or checks against another table than the receiver: hits from older tables would not be re-validated against the merged view", cl.val, want), witnessOf(p, s.St.trace))
					} else {
						r.ok("DOUBLE-CHECK", key, "doubleCheck = "+want.String())
					}
				}
			}
		}
		if name == "(*Merged).RefsFor" {
			// every successful return hands out such a filter (no path returns the
			// merged candidates unchecked)
			nRet := 0
			for _, s := range c.Samples {
				if s.Kind != "ret" || s.Panic || s.St.truth(tEq(s.Vals[1], tNil)) == 0 || s.Vals[0].isNilConst() {
					continue
				}
				nRet++
				key := name + " / every iterator handed out re-checks"
				good := false
				for _, cl := range s.St.mem {
					if cl.addr == nil || cl.addr.Op != "field" || cl.addr.Args[0] != s.Vals[0] {
						continue
					}
					// the iterator's implementation field holds the filter: an object one
					// of whose fields is the view that was asked (what hits are looked up
					// in again) and none of whose boolean fields is false
					impl := cl.val
					holdsView, off := false, false
					for _, c2 := range s.St.mem {
						if c2.addr == nil || c2.addr.Op != "field" || c2.addr.Args[0] != impl {
							continue
						}
						if c2.val == recv {
							holdsView = true
						}
						if c2.val == tFalse {
							off = true
						}
					}
					if holdsView && !off {
						good = true
						n++
					}
				}
				if !good {
					r.violate("DOUBLE-CHECK", key, p.pos(f.Pos()), "a path of the merged RefsFor returns an iterator that is not the re-checking filter: candidates that a newer table deleted or re-pointed (and that table does not mention the object any more) are returned with their old values", witnessOf(p, s.St.trace))
				} else {
					r.ok("DOUBLE-CHECK", key, "the returned iterator wraps a filter with doubleCheck set")
				}
			}
			r.floor("DOUBLE-CHECK.returns", nRet, 1, "successful returns of the merged RefsFor")
			r.floor("DOUBLE-CHECK", n, 1, "filter constructions in the merged RefsFor")
		}
	}
	// ---- ITER-POSITIONED: the indexed iterator handed out has its block iterator positioned
	{
		f := p.MustFunc("(*Reader).refsForIndexed")
		cfg := &simCfg{
			Event:  map[string]bool{"(*Reader).seek": true, "(*tableIter).Next": true, "(*Reader).newBlockReader": true, "(*Reader).refsForLinear": true},
			Pure:   map[string]bool{"(*objRecord).key": true},
			Opaque: map[string]bool{"fmt.Errorf": true, "newRecord": true},
		}
		c, _ := runSim(p, f, cfg, nil)
		n := 0
		for _, s := range c.Samples {
			if s.Kind != "ret" || s.Panic || s.St.truth(tEq(s.Vals[1], tNil)) == 0 || s.Vals[0].Op != "alloc" {
				continue
			}
			impl, ok := s.St.mem[mk("field", "Iterator.impl", nil, s.Vals[0]).key]
			if !ok || impl.val.Op != "alloc" || !strings.Contains(impl.val.Aux, "indexedTableRefIter") && !strings.Contains(impl.val.key, "complit") {
				continue
			}
			tr := impl.val
			if _, isIdx := s.St.mem[mk("field", "indexedTableRefIter.oid", nil, tr).key]; !isIdx {
				continue
			}
			n++
			// the embedded block iterator: the field of type blockIter
			curField := "indexedTableRefIter.cur"
			if ist, ok := p.namedType("indexedTableRefIter").Underlying().(*types.Struct); ok {
				for i := 0; i < ist.NumFields(); i++ {
					if n, ok := ist.Field(i).Type().(*types.Named); ok && n.Obj().Name() == "blockIter" {
						curField = "indexedTableRefIter." + fname(ist.Field(i))
					}
				}
			}
			br, has := s.St.mem[mk("field", "blockIter.br", nil, mk("field", curField, nil, tr)).key]
			key := "(*Reader).refsForIndexed / iterator handed out is positioned on a block"
			if !has || br.val.isNilConst() || s.St.truth(tEq(br.val, tNil)) == 1 {
				r.violate("ITER-POSITIONED", key, p.pos(f.Pos()), "the indexed RefsFor iterator can be returned without its block iterator positioned on a block (empty position list): its first Next dereferences a nil block reader", witnessOf(p, s.St.trace))
			} else {
				r.ok("ITER-POSITIONED", key, "cur.br is set on every successful return")
			}
		}
		r.floor("ITER-POSITIONED", n, 1, "successful returns of the indexed RefsFor")
	}
	// ---- OMITTED-FALLBACK: an object found in the index is never answered with the
	// empty iterator (an omitted position list means "scan", not "no refs")
	{
		f := p.MustFunc("(*Reader).refsForIndexed")
		cfg := &simCfg{
			Event:  map[string]bool{"(*Reader).seek": true, "(*tableIter).Next": true, "(*Reader).newBlockReader": true, "(*Reader).refsForLinear": true},
			Pure:   map[string]bool{"(*objRecord).key": true, "bytes.Equal": true, "bytes.Compare": true},
			Opaque: map[string]bool{"(*indexedTableRefIter).nextBlock": true, "fmt.Errorf": true},
		}
		c, _ := runSim(p, f, cfg, nil)
		nFound := 0
		key := "(*Reader).refsForIndexed / an indexed object is never answered with the empty iterator"
		bad := false
		for _, s := range c.Samples {
			if s.Kind != "ret" || s.Panic || len(s.Vals) != 2 || s.St.truth(tEq(s.Vals[1], tNil)) == 0 {
				continue
			}
			found := false
			for _, k := range sortedFactKeys(s.St) {
				v := s.St.facts[k]
				_ = v
				t := s.St.fterm[k]
				if v && t != nil && t.Op == "eq" && len(t.Args) == 2 && t.Args[0].Op == "pcall" && t.Args[1].Op == "pcall" &&
					t.Args[0].Aux == "(*objRecord).key" && t.Args[1].Aux == "(*objRecord).key" {
					found = true
				}
				// the same comparison on the hash prefixes themselves
				if v && t != nil && t.Op == "pcall" && t.Aux == "bytes.Equal" && strings.Contains(t.key, "objRecord.HashPrefix") {
					found = true
				}
				if !v && t != nil && t.Op == "eq" && len(t.Args) == 2 {
					for i := 0; i < 2; i++ {
						if c, ok := termInt(t.Args[i]); ok && c == 0 && t.Args[1-i].Op == "pcall" && t.Args[1-i].Aux == "bytes.Compare" && strings.Contains(t.Args[1-i].key, "objRecord.HashPrefix") {
							_ = c // Compare(...) != 0 is "not found"
						}
					}
				}
			}
			if os.Getenv("RSA_DEBUG") == "15" {
				fmt.Fprintf(os.Stderr, "refsForIndexed ret found=%v val=%s events=%d\n", found, s.Vals[0].key, len(s.Events))
			}
			if !found {
				continue
			}
			nFound++
			empty := false
			if s.Vals[0].Op == "alloc" {
				if impl, ok := s.St.mem[mk("field", "Iterator.impl", nil, s.Vals[0]).key]; ok && impl.val.Typ != nil && strings.Contains(impl.val.Typ.String(), "emptyIterator") {
					empty = true
				}
			}
			if empty || s.Vals[0].isNilConst() {
				bad = true
				r.violate("OMITTED-FALLBACK", key, p.pos(f.Pos()), "on a path where the object's record was found in the object index, RefsFor answers with an empty iterator: an object whose position list the writer omitted (too many ref blocks) is reported as unreferenced", witnessOf(p, s.St.trace))
			}
		}
		if !bad {
			r.ok("OMITTED-FALLBACK", key, fmt.Sprintf("%d found-paths end in the indexed iterator or the linear scan", nFound))
		}
		r.floor("OMITTED-FALLBACK", nFound, 2, "paths of the indexed RefsFor on which the object's record was found")
	}
	// ---- OBJ-INDEX-SOURCE: the object index is fed from Value and TargetValue of every ref written
	{
		f := p.MustFunc("(*Writer).AddRef")
		var fields []string
		for _, ci := range callsDirect(f, "(*Writer).indexHash") {
			if ld, ok := ci.Common().Args[1].(*ssa.UnOp); ok {
				if fa, ok := ld.X.(*ssa.FieldAddr); ok {
					st := fa.X.Type().Underlying().(*types.Pointer).Elem().Underlying().(*types.Struct)
					fields = append(fields, fname(st.Field(fa.Field)))
				}
			}
		}
		sort.Strings(fields)
		if strings.Join(fields, ",") != "TargetValue,Value" {
			r.violate("OBJ-INDEX-SOURCE", "(*Writer).AddRef / object index fed from value and peeled value", p.pos(f.Pos()), "the object index is fed from "+strings.Join(fields, ",")+" instead of Value and TargetValue: RefsFor through the index would miss refs", nil)
		} else {
			r.ok("OBJ-INDEX-SOURCE", "(*Writer).AddRef / object index fed from value and peeled value", "indexHash(Value), indexHash(TargetValue)")
		}
	}
}

// checkAccessors (C04, sibling rule ACCESSOR): for every niladic method of
// interface Table that returns a plain value, either all in-package
// implementations derive the result from their receiver or all return a
// constant; a constant sibling of a receiver-derived accessor is reported.
func checkAccessors(p *Program, r *Report) {
	tab := p.namedType("Table").Underlying().(*types.Interface)
	cg := buildCallGraph(p)
	_ = cg
	n := 0
	for i := 0; i < tab.NumMethods(); i++ {
		m := tab.Method(i)
		sig := m.Type().(*types.Signature)
		if sig.Params().Len() != 0 || sig.Results().Len() != 1 {
			continue
		}
		type impl struct {
			f       *ssa.Function
			derived bool
		}
		var impls []impl
		for _, f := range p.Funcs {
			if f.Parent() != nil || f.Name() != m.Name() || f.Signature.Recv() == nil || !types.Implements(f.Signature.Recv().Type(), tab) {
				continue
			}
			derived := false
			for _, b := range f.Blocks {
				for _, ins := range b.Instrs {
					if ret, ok := ins.(*ssa.Return); ok && len(ret.Results) == 1 {
						if _, _, ok := rootParam(f, ret.Results[0], 0); ok {
							derived = true
						}
						// results of calls on receiver-derived values count as derived
						var walk func(v ssa.Value, d int) bool
						walk = func(v ssa.Value, d int) bool {
							if d > 8 {
								return false
							}
							if _, _, ok := rootParam(f, v, 0); ok {
								return true
							}
							switch x := v.(type) {
							case *ssa.Call:
								for _, a := range x.Call.Args {
									if walk(a, d+1) {
										return true
									}
								}
								if x.Call.IsInvoke() {
									return walk(x.Call.Value, d+1)
								}
							case *ssa.Phi:
								for _, e := range x.Edges {
									if walk(e, d+1) {
										return true
									}
								}
							case *ssa.BinOp:
								return walk(x.X, d+1) || walk(x.Y, d+1)
							case *ssa.Extract:
								return walk(x.Tuple, d+1)
							}
							return false
						}
						if walk(ret.Results[0], 0) {
							derived = true
						}
					}
				}
			}
			// only a definite constant result is treated as "not derived"
			constant := false
			for _, b := range f.Blocks {
				for _, ins := range b.Instrs {
					if ret, ok := ins.(*ssa.Return); ok && len(ret.Results) == 1 {
						switch v := ret.Results[0].(type) {
						case *ssa.Const:
							constant = true
						case *ssa.UnOp:
							if _, isG := v.X.(*ssa.Global); isG {
								constant = true
							}
						}
					}
				}
			}
			if !constant {
				derived = true
			}
			impls = append(impls, impl{f, derived})
		}
		anyDerived := false
		for _, im := range impls {
			anyDerived = anyDerived || im.derived
		}
		for _, im := range impls {
			n++
			key := funcKey(im.f) + " / accessor reports the object's own state"
			if anyDerived && !im.derived {
				r.violate("ACCESSOR", key, p.pos(im.f.Pos()), "this implementation of Table."+m.Name()+" returns a constant while a sibling implementation derives the value from its receiver: tables of another kind (e.g. a SHA-256 table) are misreported and rejected when the merged view is built", nil)
			} else {
				r.ok("ACCESSOR", key, "result derived from the receiver")
			}
		}
	}
	r.floor("ACCESSOR", n, 6, "accessor implementations of interface Table")
}

func init() {
	checks["C11"] = func(p *Program, r *Report) {
		checkRefsFor(p, r)
		// object-index keys are raw hash bytes
		checkKeyBytewise(p, r)
		// position lists of unaligned tables hold arbitrary offsets
		checkAlignFree(p, r)
		checkObjListWhole(p, r)
		checkObjCountAgree(p, r)
		checkObjIndexEveryBlock(p, r)
		// an open RefsFor iterator is not disturbed by later lookups through the same reader or view
		copyStateless(p, r, "REFSFOR-STATELESS", "a RefsFor result can depend on other lookups through the same Reader or Merged")
		// nil contracts on the RefsFor paths
		cg := buildCallGraph(p)
		reach := cg.reachable(hostileRoots(p, cg))
		r2 := newReport(r.Property, r.Tier, r.Seed)
		checkNilContract(p, r2, reach)
		for k, o := range r2.Obl {
			if !strings.Contains(k, "RefsFor") && !strings.Contains(k, "refsForIndexed") && !strings.Contains(k, "indexedTableRefIter") {
				continue
			}
			if v, bad := r2.Viol[k]; bad {
				r.violate(o.Rule, strings.TrimPrefix(k, o.Rule+" / "), v.Where, v.Message, nil)
			} else {
				r.ok(o.Rule, strings.TrimPrefix(k, o.Rule+" / "), o.Note)
			}
		}
		r.Engines = []string{"pathsim", "sibling", "dtable", "nilcontract"}
		r.Explanation = "Agreement of sibling code on the RefsFor and point-lookup paths: every function that hands a caller's RefRecord to the block iterator adds the table's minimum update index back on every yielding path (and the writer stores UpdateIndex - min); every point lookup (seek to a name, read one record) compares the name found before treating the record as that name's; both filters yield exactly when value or peeled value equals the object id (all valuations); the merged RefsFor re-checks hits against the merged view it was called on, a single table does not; the object index is fed from value and peeled value; nilable iterators are checked before use."
		r.NotDecided = []string{"exactness of the result set for given data", "object-index contents and prefix-length arithmetic", "name order of the merged result"}
		r.Assumptions = []string{"bytes.Compare/Equal are pure", "the block iterator fills the record passed to it and nothing else"}
	}
}

// OBJ-COUNT-AGREE (C11, C14): an object record carries the number of its
// positions either in the three value-type bits next to the key (1..7) or, when
// those bits are 0, in a varint in front of the positions.  The writer takes the
// bits from valType() and the body from encode(): on every successful path of
// encode, the count varint is written exactly when valType() returns 0 for a
// record compatible with that path (decided over the order atoms of the two
// paths).  A disagreement makes the reader misparse the record and the rest of
// the object block, so RefsFor fails or misses refs.
func checkObjCountAgree(p *Program, r *Report) {
	enc := p.MustFunc("(*objRecord).encode")
	vt := p.MustFunc("(*objRecord).valType")
	cfg := &simCfg{Event: map[string]bool{"putVarInt": true}, Keep: map[string]bool{"putVarInt": true}, NoInlineDefault: true, NoLoopSamples: true}
	ce, _ := runSim(p, enc, cfg, nil)
	recv := mk("param", funcKey(enc)+"."+enc.Params[0].Name(), enc.Params[0].Type())
	cv, _ := runSim(p, vt, &simCfg{NoInlineDefault: true, NoLoopSamples: true}, []*Term{recv})
	n := 0
	bad := ""
	var w []string
	for _, s := range ce.Samples {
		if s.Kind != "ret" || s.Panic || len(s.Vals) != 2 || s.Vals[1] != tTrue {
			continue
		}
		// is the first varint written on this path the number of positions?
		wroteCount := false
		for _, e := range s.Events {
			if e.Op == "ev" && e.Aux == "putVarInt" {
				v := e.Args[1]
				wroteCount = v.containsOp("len") && !v.containsOp("elem") && !v.containsOp("index")
				break
			}
		}
		for _, v := range cv.Samples {
			if v.Kind != "ret" || v.Panic || len(v.Vals) != 1 {
				continue
			}
			// compatible: the facts of the valType path do not contradict the encode path
			var conj []*Formula
			for _, k := range sortedFactKeys(v.St) {
				a := fAtom(v.St.fterm[k])
				if !v.St.facts[k] {
					a = fNot(a)
				}
				conj = append(conj, a)
			}
			if len(conj) > 0 {
				if contra, _ := implied(s.St, fNot(fAnd(conj...))); contra {
					continue
				}
			}
			n++
			isZero := v.Vals[0].isConst() && v.Vals[0].Aux == "0"
			if wroteCount != isZero {
				bad = fmt.Sprintf("encode %s the count varint on a path for which valType() returns %s", map[bool]string{true: "writes", false: "omits"}[wroteCount], v.Vals[0])
				w = witnessOf(p, s.St.trace)
			}
		}
	}
	key := "objRecord / the count is written as a varint exactly when the value-type bits are 0"
	if bad != "" {
		r.violate("OBJ-COUNT-AGREE", key, p.pos(enc.Pos()), "the value-type bits and the body of an object record disagree about where the number of positions is stored ("+bad+"): the reader misparses the record and what follows it in the object block", w)
	} else {
		r.ok("OBJ-COUNT-AGREE", key, fmt.Sprintf("%d compatible (encode path, valType path) pairs agree", n))
	}
	r.floor("OBJ-COUNT-AGREE", n, 3, "compatible pairs of encode and valType paths of the object record")
}

// OBJ-INDEX-EVERY-BLOCK (C11, C14): the object index must list, for an object
// id, every ref block that holds a ref to it.  The writer records the current
// block position under the id for every such ref; the only reasons not to
// append are: object indexing is switched off, there is no id, or the id's list
// already ends with this very block position.  Decided on the control-flow
// graph of the function that updates the id -> positions map: every path from
// its entry to a return that does not pass the map update takes, in the right
// direction, a branch on one of these three conditions.
func checkObjIndexEveryBlock(p *Program, r *Report) {
	wT := p.namedType("Writer")
	n := 0
	for _, f := range p.Funcs {
		if f.Parent() != nil || !recvIsT(f, wT) {
			continue
		}
		// the map update: m[k] = append(..) on a map[string][]uint64 field of the writer
		var upd *ssa.MapUpdate
		for _, b := range f.Blocks {
			for _, ins := range b.Instrs {
				mu, ok := ins.(*ssa.MapUpdate)
				if !ok {
					continue
				}
				mt, ok := mu.Map.Type().Underlying().(*types.Map)
				if !ok {
					continue
				}
				if sl, ok := mt.Elem().Underlying().(*types.Slice); ok {
					if bt, ok := sl.Elem().Underlying().(*types.Basic); ok && bt.Kind() == types.Uint64 {
						upd = mu
					}
				}
			}
		}
		if upd == nil {
			continue
		}
		n++
		// classification of branch conditions
		fromField := func(v ssa.Value, pred func(t types.Type) bool) bool {
			seen := map[ssa.Value]bool{}
			var rec func(v ssa.Value) bool
			rec = func(v ssa.Value) bool {
				if seen[v] {
					return false
				}
				seen[v] = true
				switch x := v.(type) {
				case *ssa.FieldAddr:
					return pred(x.Type().(*types.Pointer).Elem()) || rec(x.X)
				case *ssa.Field:
					return pred(x.Type()) || rec(x.X)
				case *ssa.UnOp:
					return rec(x.X)
				case *ssa.Convert:
					return rec(x.X)
				}
				return false
			}
			return rec(v)
		}
		isBoolField := func(v ssa.Value) bool {
			return fromField(v, func(t types.Type) bool {
				b, ok := t.Underlying().(*types.Basic)
				return ok && b.Kind() == types.Bool
			})
		}
		isHashParam := func(v ssa.Value) bool {
			for _, pa := range f.Params[1:] {
				if v == ssa.Value(pa) {
					return true
				}
				if c, ok := v.(*ssa.Call); ok {
					if b, ok := c.Call.Value.(*ssa.Builtin); ok && b.Name() == "len" && c.Call.Args[0] == ssa.Value(pa) {
						return true
					}
				}
			}
			return false
		}
		isListElem := func(v ssa.Value) bool {
			u, ok := v.(*ssa.UnOp)
			if !ok {
				return false
			}
			ia, ok := u.X.(*ssa.IndexAddr)
			if !ok {
				return false
			}
			// the list looked up in the same map
			switch l := ia.X.(type) {
			case *ssa.Lookup:
				return l.X == upd.Map || sameFieldLoad(l.X, upd.Map)
			case *ssa.Extract:
				if lk, ok := l.Tuple.(*ssa.Lookup); ok {
					return lk.X == upd.Map || sameFieldLoad(lk.X, upd.Map)
				}
			}
			return false
		}
		isUint64Field := func(v ssa.Value) bool {
			// the block position: a uint64 field of the writer, or handed in as a parameter
			if pa, ok := v.(*ssa.Parameter); ok {
				if b, ok := pa.Type().Underlying().(*types.Basic); ok && b.Kind() == types.Uint64 {
					return true
				}
			}
			return fromField(v, func(t types.Type) bool {
				b, ok := t.Underlying().(*types.Basic)
				return ok && b.Kind() == types.Uint64
			})
		}
		// allowed(cond, taken): taking this branch is a legitimate reason not to append
		allowed := func(cond ssa.Value, taken bool) bool {
			if isBoolField(cond) {
				return taken
			}
			bo, ok := cond.(*ssa.BinOp)
			if !ok {
				return false
			}
			eq := bo.Op == token.EQL
			if bo.Op != token.EQL && bo.Op != token.NEQ {
				return false
			}
			for _, pr := range [][2]ssa.Value{{bo.X, bo.Y}, {bo.Y, bo.X}} {
				a, b := pr[0], pr[1]
				if isHashParam(a) {
					if c, ok := b.(*ssa.Const); ok && (c.IsNil() || (c.Value != nil && c.Value.ExactString() == "0")) {
						return taken == eq
					}
				}
				if isListElem(a) && isUint64Field(b) {
					return taken == eq
				}
			}
			return false
		}
		bad := token.NoPos
		var path []bool
		onPath := map[*ssa.BasicBlock]bool{}
		var dfs func(b *ssa.BasicBlock, ok bool)
		dfs = func(b *ssa.BasicBlock, ok bool) {
			if bad.IsValid() || onPath[b] || b == upd.Block() {
				return
			}
			onPath[b] = true
			defer delete(onPath, b)
			last := b.Instrs[len(b.Instrs)-1]
			switch t := last.(type) {
			case *ssa.Return:
				if !ok {
					bad = t.Pos()
					if !bad.IsValid() {
						bad = f.Pos()
					}
				}
			case *ssa.If:
				dfs(b.Succs[0], ok || allowed(t.Cond, true))
				dfs(b.Succs[1], ok || allowed(t.Cond, false))
			default:
				for _, su := range b.Succs {
					dfs(su, ok)
				}
			}
		}
		_ = path
		dfs(f.Blocks[0], false)
		key := funcKey(f) + " / every ref block of an object is recorded"
		if bad.IsValid() {
			r.violate("OBJ-INDEX-EVERY-BLOCK", key, p.pos(bad), "the writer can skip recording the current ref block under an object id for a reason other than 'indexing is off', 'no id' or 'the id's list already ends with this block' (for instance because the id equals the previous one): a block that holds refs to the object is missing from its position list and RefsFor does not find them", nil)
		} else {
			r.ok("OBJ-INDEX-EVERY-BLOCK", key, "every return that bypasses the map update is justified by one of the three conditions")
		}
	}
	r.floor("OBJ-INDEX-EVERY-BLOCK", n, 1, "writer functions that update the object id -> positions map")
}

// sameFieldLoad: both values are loads of the same field of the same object.
func sameFieldLoad(a, b ssa.Value) bool {
	ua, ok1 := a.(*ssa.UnOp)
	ub, ok2 := b.(*ssa.UnOp)
	if !ok1 || !ok2 {
		return false
	}
	return sameAddr(ua.X, ub.X)
}
