package main

// Blank imports keep every x/tools package the analyser may use inside the
// vendored tree, so the build never needs the module cache or the network.
import (
	_ "golang.org/x/tools/go/ast/astutil"
	_ "golang.org/x/tools/go/callgraph"
	_ "golang.org/x/tools/go/callgraph/cha"
	_ "golang.org/x/tools/go/callgraph/vta"
	_ "golang.org/x/tools/go/cfg"
	_ "golang.org/x/tools/go/packages"
	_ "golang.org/x/tools/go/ssa"
	_ "golang.org/x/tools/go/ssa/ssautil"
	_ "golang.org/x/tools/go/types/typeutil"
)
