package main

import (
	"go/ast"
	"go/parser"
	"go/token"
	"go/types"

	"golang.org/x/tools/go/ssa"
	"golang.org/x/tools/go/ssa/ssautil"
)

const runeControlSrc = `package ctl
func f(a, b string) int {
	n := 0
	for i := range a {
		if i < len(b) && a[i] == b[i] { n++ }
	}
	return n + len([]rune(b))
}
`

// runeControl builds the control function and returns how many rune
// iterations the detector finds in it (2 expected).
func runeControl() int {
	fset := token.NewFileSet()
	file, err := parser.ParseFile(fset, "ctl.go", runeControlSrc, 0)
	if err != nil {
		return -1
	}
	pkg := types.NewPackage("ctl", "ctl")
	spkg, _, err := ssautil.BuildPackage(&types.Config{}, fset, pkg, []*ast.File{file}, ssa.SanityCheckFunctions)
	if err != nil {
		return -1
	}
	return len(runeIterations(spkg.Func("f")))
}

const alignControlSrc = `package ctl
func g(pos, blockSize uint64) bool { return blockSize > 0 && pos%blockSize != 0 && pos%8 == 0 }
`

// alignControl: number of alignment tests found in the control function (1 expected).
func alignControl() int {
	fset := token.NewFileSet()
	file, err := parser.ParseFile(fset, "ctl2.go", alignControlSrc, 0)
	if err != nil {
		return -1
	}
	pkg := types.NewPackage("ctl2", "ctl")
	spkg, _, err := ssautil.BuildPackage(&types.Config{}, fset, pkg, []*ast.File{file}, ssa.SanityCheckFunctions)
	if err != nil {
		return -1
	}
	return len(alignTests(spkg.Func("g")))
}
