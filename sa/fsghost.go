package main

import (
	"sort"
	"strings"
)

// fsGhost is the typestate component of the abstract state for the file
// protocol analysis (DESIGN §3.2).
type fsGhost struct {
	held     map[string]*Term // lock-path tokens created by this operation with O_EXCL and not yet released
	failed   map[string]*Term // lock paths whose O_EXCL create returned EEXIST on this path
	tmps     map[string]*Term // temp files created and not yet removed / renamed
	inplace  map[string]*Term // new table paths renamed into place, not yet listed or removed
	fileOf   map[string]*Term // file handle -> path
	written  map[string]*Term // path -> content written through the creating handle
	wclosed  map[string]*Term // path -> handle closed (value = path)
	closedRd map[string]*Term // readers on which Close was applied
	released map[string]*Term // tokens released during the current loop iteration (discharged at loop exit)
	iterOK   map[string]*Term // loop marks whose iteration produced a reader for the drawn name
	complete map[string]*Term // list value key -> names list it was completely built from
	mergedOf map[string]*Term // merged view -> table list it was built from
	flags    map[string]*Term // scalar ghost: validated, lastNames, committed, floor, …
}

func newFsGhost() *fsGhost {
	return &fsGhost{held: map[string]*Term{}, failed: map[string]*Term{}, tmps: map[string]*Term{}, inplace: map[string]*Term{},
		fileOf: map[string]*Term{}, written: map[string]*Term{}, wclosed: map[string]*Term{}, closedRd: map[string]*Term{},
		released: map[string]*Term{}, iterOK: map[string]*Term{}, complete: map[string]*Term{}, mergedOf: map[string]*Term{}, flags: map[string]*Term{}}
}

func (g *fsGhost) maps() []map[string]*Term {
	return []map[string]*Term{g.held, g.failed, g.tmps, g.inplace, g.fileOf, g.written, g.wclosed, g.closedRd, g.released, g.iterOK, g.complete, g.mergedOf, g.flags}
}

func copyTM(m map[string]*Term) map[string]*Term {
	n := make(map[string]*Term, len(m))
	for k, v := range m {
		n[k] = v
	}
	return n
}

func (g *fsGhost) Clone() Ghost {
	return &fsGhost{held: copyTM(g.held), failed: copyTM(g.failed), tmps: copyTM(g.tmps), inplace: copyTM(g.inplace), fileOf: copyTM(g.fileOf),
		written: copyTM(g.written), wclosed: copyTM(g.wclosed), closedRd: copyTM(g.closedRd), released: copyTM(g.released), iterOK: copyTM(g.iterOK),
		complete: copyTM(g.complete), mergedOf: copyTM(g.mergedOf), flags: copyTM(g.flags)}
}

func (g *fsGhost) Key() string {
	var parts []string
	for i, m := range g.maps() {
		var ks []string
		for k, v := range m {
			ks = append(ks, k+"="+v.key)
		}
		sort.Strings(ks)
		parts = append(parts, string(rune('a'+i))+"{"+strings.Join(ks, ";")+"}")
	}
	return strings.Join(parts, "")
}

// keyed maps whose key is the key of a term (first component) need their
// keys renamed too; flags are keyed by fixed names.
func substTM(m map[string]*Term, from, to *Term, keyIsTerm bool, keyTerms map[string]*Term) map[string]*Term {
	n := make(map[string]*Term, len(m))
	for k, v := range m {
		nv := v.subst(from, to)
		nk := k
		if keyIsTerm {
			if kt, ok := keyTerms[k]; ok {
				nk = kt.subst(from, to).key
			}
		}
		n[nk] = nv
	}
	return n
}

var ghostKeyTerms = map[string]*Term{}

func gk(t *Term) string {
	ghostKeyTerms[t.key] = t
	return t.key
}

func (g *fsGhost) Subst(from, to *Term) Ghost {
	n := &fsGhost{}
	n.held = substTM(g.held, from, to, true, ghostKeyTerms)
	n.failed = substTM(g.failed, from, to, true, ghostKeyTerms)
	n.tmps = substTM(g.tmps, from, to, true, ghostKeyTerms)
	n.inplace = substTM(g.inplace, from, to, true, ghostKeyTerms)
	n.fileOf = substTM(g.fileOf, from, to, true, ghostKeyTerms)
	n.written = substTM(g.written, from, to, true, ghostKeyTerms)
	n.wclosed = substTM(g.wclosed, from, to, true, ghostKeyTerms)
	n.closedRd = substTM(g.closedRd, from, to, true, ghostKeyTerms)
	n.released = substTM(g.released, from, to, true, ghostKeyTerms)
	n.iterOK = substTM(g.iterOK, from, to, true, ghostKeyTerms)
	n.complete = substTM(g.complete, from, to, true, ghostKeyTerms)
	n.mergedOf = substTM(g.mergedOf, from, to, true, ghostKeyTerms)
	n.flags = substTM(g.flags, from, to, false, nil)
	for _, m := range n.maps() {
		for _, v := range m {
			ghostKeyTerms[v.key] = v
		}
	}
	return n
}

func unionTM(a, b map[string]*Term) map[string]*Term {
	n := copyTM(a)
	for k, v := range b {
		n[k] = v
	}
	return n
}

func interTM(a, b map[string]*Term) map[string]*Term {
	n := map[string]*Term{}
	for k, v := range a {
		if v2, ok := b[k]; ok && v2 == v {
			n[k] = v
		}
	}
	return n
}

// Join at a loop head: "may" sets are united, "must" facts intersected.
func (g *fsGhost) Join(o Ghost) Ghost {
	b := o.(*fsGhost)
	n := &fsGhost{}
	n.held = unionTM(g.held, b.held)
	n.failed = unionTM(g.failed, b.failed)
	n.tmps = unionTM(g.tmps, b.tmps)
	n.inplace = unionTM(g.inplace, b.inplace)
	n.fileOf = unionTM(g.fileOf, b.fileOf)
	n.written = unionTM(g.written, b.written)
	n.wclosed = interTM(g.wclosed, b.wclosed)
	n.closedRd = unionTM(g.closedRd, b.closedRd)
	n.released = map[string]*Term{}
	n.iterOK = map[string]*Term{}
	n.complete = interTM(g.complete, b.complete)
	n.mergedOf = unionTM(g.mergedOf, b.mergedOf)
	n.flags = interTM(g.flags, b.flags)
	return n
}

func (g *fsGhost) flag(name string) *Term { return g.flags[name] }
func (g *fsGhost) setFlag(name string, v *Term) {
	if v == nil {
		delete(g.flags, name)
	} else {
		g.flags[name] = v
	}
}
func (g *fsGhost) isSet(name string) bool { return g.flags[name] == tTrue }
