package main

import (
	"flag"
	"fmt"
	"os"
	"os/exec"
	"path/filepath"
	"runtime/debug"
	"runtime/pprof"
	"sort"
	"strconv"
	"strings"
	"time"
)

// rsa: repository-specific static analyser for hanwen/reftable.
//   rsa check --property C04 --tier quick --repo /repo --verif /verif
//   rsa explain <violation.json>

func main() {
	debug.SetGCPercent(400)
	if pf := os.Getenv("RSA_PROF"); pf != "" {
		f, _ := os.Create(pf)
		pprof.StartCPUProfile(f)
		go func() {
			time.Sleep(30 * time.Second)
			pprof.StopCPUProfile()
			f.Close()
			os.Exit(3)
		}()
	}
	if len(os.Args) < 2 {
		fmt.Fprintln(os.Stderr, "usage: rsa check|explain|debug …")
		os.Exit(2)
	}
	switch os.Args[1] {
	case "check":
		os.Exit(cmdCheck(os.Args[2:]))
	case "matrix":
		os.Exit(cmdMatrix(os.Args[2:]))
	case "refnames":
		// regenerate sa/refnames.json from the reference tree (then rebuild)
		repo := "/repo"
		if len(os.Args) > 2 {
			repo = os.Args[2]
		}
		abs, _ := filepath.Abs(repo)
		os.Stdout.Write(buildRefNames(loadProgram(abs, "", nil)))
		os.Exit(0)
	case "explain":
		os.Exit(cmdExplain(os.Args[2:]))
	case "debug":
		os.Exit(cmdDebug(os.Args[2:]))
	}
	fmt.Fprintln(os.Stderr, "unknown command", os.Args[1])
	os.Exit(2)
}

var matrixVerif = "/verif"

type checkFunc func(p *Program, r *Report)

var checks = map[string]checkFunc{}

func cmdCheck(args []string) (code int) {
	fs := flag.NewFlagSet("check", flag.ExitOnError)
	prop := fs.String("property", "", "property id")
	tier := fs.String("tier", "quick", "quick|thorough")
	repo := fs.String("repo", "/repo", "repository root")
	verif := fs.String("verif", "/verif", "verif root")
	fs.Parse(args)
	seed := int64(0)
	if s := os.Getenv("VERIF_SEED"); s != "" {
		seed, _ = strconv.ParseInt(s, 10, 64)
	}
	f, ok := checks[*prop]
	if !ok {
		fmt.Fprintf(os.Stderr, "no check registered for %q\n", *prop)
		return 2
	}
	abs, _ := filepath.Abs(*repo)
	r := newReport(*prop, *tier, seed)
	loaded := false
	defer func() {
		if e := recover(); e != nil {
			if ae, ok := e.(analysisError); ok {
				fmt.Fprintf(os.Stderr, "ANALYSIS-ERROR property=%s: %s\n", *prop, ae.msg)
				if !loaded {
					// the tree does not load / type-check: nothing can be said
					code = 2
					return
				}
				// the construct a rule is anchored in is no longer present in a
				// shape the analysis resolves: the property is not shown on this
				// tree, which is reported as a violation naming the lost anchor
				r.violate("UNDECIDED", "anchor / "+ae.msg, "-", "the analysis cannot resolve a construct its rules are anchored in ("+ae.msg+"): the structural condition this check decides is not established on this tree", nil)
				code = r.finish(*verif)
				return
			}
			panic(e)
		}
	}()
	p := loadProgram(abs, "", nil)
	loaded = true
	f(p, r)
	if *tier == "thorough" {
		thorough(*prop, abs, *verif, r, f, p)
	}
	return r.finish(*verif)
}

func cmdExplain(args []string) int {
	if len(args) < 1 {
		return 2
	}
	b, err := os.ReadFile(args[0])
	if err != nil {
		fmt.Fprintln(os.Stderr, err)
		return 2
	}
	fmt.Println(string(b))
	return 0
}

// cmdDebug runs the file-protocol analysis and prints everything.
func cmdDebug(args []string) (code int) {
	fs := flag.NewFlagSet("debug", flag.ExitOnError)
	repo := fs.String("repo", "/repo", "repository root")
	only := fs.String("entry", "", "only this entry point")
	wit := fs.Bool("witness", false, "print witnesses")
	fs.Parse(args)
	defer func() {
		if e := recover(); e != nil {
			if ae, ok := e.(analysisError); ok {
				fmt.Fprintf(os.Stderr, "ANALYSIS-ERROR: %s\n", ae.msg)
				code = 2
				return
			}
			panic(e)
		}
	}()
	p := loadProgram(*repo, "", nil)
	rules, runs := runFsproto(p, *only)
	for _, r := range runs {
		fmt.Printf("entry %-28s paths=%d states=%d forks=%d loops=%d rounds=%d inlined=%d merged=%d funcs=%d\n", r.Entry, r.Paths, r.States, r.Forks, r.Loops, r.Rounds, r.Inlined, r.Merged, len(r.Funcs))
	}
	for ru, es := range rules.seen {
		var l []string
		for e := range es {
			l = append(l, e)
		}
		sort.Strings(l)
		fmt.Printf("seen %-22s %d: %s\n", ru, len(l), strings.Join(l, " | "))
	}
	var ks []string
	for k := range rules.obl {
		ks = append(ks, k)
	}
	sort.Strings(ks)
	for _, k := range ks {
		o := rules.obl[k]
		s := "ok  "
		if !o.OK {
			s = "VIOL"
		}
		fmt.Printf("%s %s\n", s, k)
		if !o.OK {
			v := rules.viol[k]
			fmt.Printf("       %s: %s\n", v.Where, v.Message)
			if *wit {
				for _, w := range v.Witness {
					if strings.Contains(w, "event") || strings.Contains(w, "branch") || true {
						fmt.Printf("         %s\n", w)
					}
				}
			}
		}
	}
	return 0
}

// runFsproto analyses all entry points (or one).
func runFsproto(p *Program, only string) (*fsRules, []fsRun) {
	rules := newFsRules()
	c := newFsClient(p, rules)
	var runs []fsRun
	eps := fsEntryPoints(p)
	// AutoCompact first: its result summary is used inside Stack.Add
	sort.SliceStable(eps, func(i, j int) bool {
		return funcKey(eps[i]) == "(*Stack).AutoCompact" && funcKey(eps[j]) != "(*Stack).AutoCompact"
	})
	for _, fn := range eps {
		if only != "" && funcKey(fn) != only && !(funcKey(fn) == "(*Stack).AutoCompact" && only == "(*Stack).Add") {
			continue
		}
		c.runEntry(fn, &runs)
	}
	if only != "" && len(runs) == 0 && only != "protocol" {
		if fn := p.Func(only); fn != nil {
			c.runEntry(fn, &runs)
		}
	}
	if only == "" || only == "protocol" {
		c.runProtocol(&runs)
	}
	return rules, runs
}

func resetCaches() {
	resetTerms()
	ghostKeyTerms = map[string]*Term{}
	fsCache = nil
	compactCache = nil
	writeSetCache = nil
}

// thorough adds to the quick analysis: (1) mutation sensitivity - every seeded
// change recorded for this property under seeded/ is applied to a scratch copy
// of the current working tree and the same analysis must report a violation
// there; (2) for the file-protocol properties an advisory run under the
// I/O-fault model.  Neither can turn the verdict: a missed seed is reported
// as SELFTEST-MISS in the evidence.
func thorough(prop, repo, verif string, r *Report, f checkFunc, p *Program) {
	if _, isFs := fsRuleSets[prop]; isFs {
		rules := newFsRules()
		c := newFsClient(p, rules)
		c.faults = true
		var runs []fsRun
		eps := fsEntryPoints(p)
		sort.SliceStable(eps, func(i, j int) bool {
			return funcKey(eps[i]) == "(*Stack).AutoCompact" && funcKey(eps[j]) != "(*Stack).AutoCompact"
		})
		func() {
			defer func() {
				if e := recover(); e != nil {
					r.Advisory = append(r.Advisory, fmt.Sprintf("fault-model run aborted: %v", e))
				}
			}()
			for _, fn := range eps {
				c.runEntry(fn, &runs)
			}
			c.runProtocol(&runs)
		}()
		seen := map[string]bool{}
		for _, a := range rules.adv {
			if !seen[a] {
				seen[a] = true
				r.Advisory = append(r.Advisory, a)
			}
		}
		sort.Strings(r.Advisory)
		r.Stats["fault_model.advisories"] = len(r.Advisory)
	}
	seeds, _ := filepath.Glob(filepath.Join(verif, "seeded", prop+"-*", "patch.diff"))
	sort.Strings(seeds)
	var results []map[string]interface{}
	fired := 0
	for _, patch := range seeds {
		id := filepath.Base(filepath.Dir(patch))
		res := runVariant(prop, repo, f, func(tmp string) string {
			ap := exec.Command("git", "apply", patch)
			ap.Dir = tmp
			if msg, err := ap.CombinedOutput(); err != nil {
				return "patch no longer applies to the current tree: " + strings.TrimSpace(string(msg))
			}
			return ""
		})
		res["seed"] = id
		if b, _ := res["fired"].(bool); b {
			fired++
		} else if _, sk := res["skipped"]; !sk {
			fmt.Printf("SELFTEST-MISS property=%s seed=%s\n", prop, id)
		}
		results = append(results, res)
	}
	// (3) regression on repaired defects: every fix: commit recorded for this
	// property is reverse-applied to a scratch copy of the current tree; the
	// defect it repaired must be reported again there
	var regress []map[string]interface{}
	nReg, nRegFired := 0, 0
	for _, fx := range loadKnown(verif).Fixed {
		if fx.Property != prop || fx.Commit == "" {
			continue
		}
		nReg++
		commit := fx.Commit
		res := runVariant(prop, repo, f, func(tmp string) string {
			diff, err := exec.Command("git", "-C", repo, "show", "--format=", commit, "--", ".", ":(exclude)*_test.go").Output()
			if err != nil || len(diff) == 0 {
				return "commit not available in the repository under analysis"
			}
			ap := exec.Command("git", "apply", "-R", "-")
			ap.Dir = tmp
			ap.Stdin = strings.NewReader(string(diff))
			if msg, err := ap.CombinedOutput(); err != nil {
				return "the fix can no longer be reverted in isolation (later changes touch the same lines): " + strings.TrimSpace(string(msg))
			}
			return ""
		})
		res["reverted_fix"] = commit
		res["what"] = fx.What
		if b, _ := res["fired"].(bool); b {
			nRegFired++
		} else if _, sk := res["skipped"]; !sk {
			fmt.Printf("REGRESSION-MISS property=%s commit=%s\n", prop, commit)
		}
		regress = append(regress, res)
	}
	// (4) silence on behaviour-preserving refactorings: every patch under
	// refactors/ written for this property is applied to a scratch copy; this
	// property's analysis must report nothing there
	// (the refactorings written for this property; that every check stays silent on
	// every refactoring is what tools/sweep_refactors.sh records in refactors/RESULTS.md)
	refs, _ := filepath.Glob(filepath.Join(verif, "refactors", prop+"-*", "patch.diff"))
	sort.Strings(refs)
	var silent []map[string]interface{}
	nRef, nSilent := 0, 0
	for _, patch := range refs {
		id := filepath.Base(filepath.Dir(patch))
		res := runVariant(prop, repo, f, func(tmp string) string {
			ap := exec.Command("git", "apply", patch)
			ap.Dir = tmp
			if msg, err := ap.CombinedOutput(); err != nil {
				return "patch no longer applies to the current tree: " + strings.TrimSpace(string(msg))
			}
			return ""
		})
		res["refactoring"] = id
		if _, sk := res["skipped"]; !sk {
			nRef++
			if b, _ := res["fired"].(bool); !b {
				nSilent++
			} else {
				fmt.Printf("REFACTOR-ALARM property=%s refactoring=%s rules=%v\n", prop, id, res["rules"])
			}
		}
		silent = append(silent, res)
	}
	r.Stats["refactor_silence.applied"] = nRef
	r.Stats["refactor_silence.silent"] = nSilent
	if len(silent) > 0 {
		r.Samples = append(r.Samples, map[string]interface{}{"refactor_silence": silent})
	}
	r.Stats["fix_regression.commits"] = nReg
	r.Stats["fix_regression.reported_again"] = nRegFired
	if len(regress) > 0 {
		r.Samples = append(r.Samples, map[string]interface{}{"fix_regression": regress})
	}
	resetCaches()
	r.Stats["selftest.seeds"] = len(seeds)
	r.Stats["selftest.fired"] = fired
	r.Samples = append(r.Samples, map[string]interface{}{"mutation_sensitivity": results})
}

// runVariant copies the tracked files of the tree under analysis to a scratch
// directory, lets edit change the copy, and runs the property's analysis on it
// in-process.  The copy is removed before returning.
func runVariant(prop, repo string, f checkFunc, edit func(tmp string) string) map[string]interface{} {
	res := map[string]interface{}{}
	tmp, err := os.MkdirTemp("", "rsa-selftest-")
	if err != nil {
		res["skipped"] = err.Error()
		return res
	}
	defer os.RemoveAll(tmp)
	out, err := exec.Command("git", "-C", repo, "ls-files").Output()
	if err != nil {
		res["skipped"] = "git ls-files: " + err.Error()
		return res
	}
	for _, rel := range strings.Fields(string(out)) {
		b, err := os.ReadFile(filepath.Join(repo, rel))
		if err != nil {
			continue
		}
		os.MkdirAll(filepath.Dir(filepath.Join(tmp, rel)), 0o755)
		os.WriteFile(filepath.Join(tmp, rel), b, 0o644)
	}
	if why := edit(tmp); why != "" {
		res["skipped"] = why
		return res
	}
	defer func() {
		if e := recover(); e != nil {
			res["analysis_error"] = fmt.Sprint(e)
			res["fired"] = true // the analysis refuses the tree: not a silent pass
		}
	}()
	resetCaches()
	p2 := loadProgram(tmp, "", nil)
	r2 := newReport(prop, "quick", 0)
	f(p2, r2)
	var rules []string
	rs := map[string]bool{}
	for _, v := range r2.Viol {
		if !rs[v.Rule] {
			rs[v.Rule] = true
			rules = append(rules, v.Rule)
		}
	}
	sort.Strings(rules)
	res["fired"] = len(r2.Viol) > 0 || len(r2.Floors) > 0
	res["rules"] = rules
	return res
}

// cmdMatrix runs every registered check (quick) on one tree in one process,
// sharing the program and the analysis caches, and prints which fire with
// which rules.  Used by tools/sweep_seeds.sh; writes no evidence.
func cmdMatrix(args []string) int {
	fs := flag.NewFlagSet("matrix", flag.ExitOnError)
	repo := fs.String("repo", "/repo", "repository root")
	verif := fs.String("verif", "/verif", "verif root (known findings)")
	fs.Parse(args)
	matrixVerif = *verif
	abs, _ := filepath.Abs(*repo)
	p := loadProgram(abs, "", nil)
	var props []string
	for k := range checks {
		props = append(props, k)
	}
	sort.Strings(props)
	for _, prop := range props {
		r := newReport(prop, "quick", 0)
		func() {
			defer func() {
				if e := recover(); e != nil {
					if ae, ok := e.(analysisError); ok {
						r.violate("UNDECIDED", "anchor / "+ae.msg, "-", ae.msg, nil)
						return
					}
					panic(e)
				}
			}()
			checks[prop](p, r)
		}()
		rs := map[string]bool{}
		known := map[string]bool{}
		for _, kf := range loadKnown(matrixVerif).Findings {
			if kf.Property == prop {
				known[kf.Key] = true
			}
		}
		for k, v := range r.Viol {
			if known[k] {
				continue // a recorded finding is reported as KNOWN-FINDING by check, not as an alarm
			}
			rs[v.Rule] = true
		}
		if len(r.Floors) > 0 {
			rs["UNDECIDED"] = true
		}
		var rules []string
		for k := range rs {
			rules = append(rules, k)
		}
		sort.Strings(rules)
		fmt.Printf("%s %d %s\n", prop, len(rules), strings.Join(rules, ","))
	}
	return 0
}
