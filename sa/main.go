package main

import (
	"flag"
	"fmt"
	"os"
	"path/filepath"
	"runtime/debug"
	"runtime/pprof"
	"sort"
	"strconv"
	"strings"
	"time"
)

// rsa: repository-specific static analyser for hanwen/reftable.
//   rsa check --property C04 --tier quick --repo /repo --verif /verif
//   rsa explain <violation.json>

func main() {
	debug.SetGCPercent(400)
	if pf := os.Getenv("RSA_PROF"); pf != "" {
		f, _ := os.Create(pf)
		pprof.StartCPUProfile(f)
		go func() {
			time.Sleep(30 * time.Second)
			pprof.StopCPUProfile()
			f.Close()
			os.Exit(3)
		}()
	}
	if len(os.Args) < 2 {
		fmt.Fprintln(os.Stderr, "usage: rsa check|explain|debug …")
		os.Exit(2)
	}
	switch os.Args[1] {
	case "check":
		os.Exit(cmdCheck(os.Args[2:]))
	case "explain":
		os.Exit(cmdExplain(os.Args[2:]))
	case "debug":
		os.Exit(cmdDebug(os.Args[2:]))
	}
	fmt.Fprintln(os.Stderr, "unknown command", os.Args[1])
	os.Exit(2)
}

type checkFunc func(p *Program, r *Report)

var checks = map[string]checkFunc{}

func cmdCheck(args []string) (code int) {
	fs := flag.NewFlagSet("check", flag.ExitOnError)
	prop := fs.String("property", "", "property id")
	tier := fs.String("tier", "quick", "quick|thorough")
	repo := fs.String("repo", "/repo", "repository root")
	verif := fs.String("verif", "/verif", "verif root")
	fs.Parse(args)
	seed := int64(0)
	if s := os.Getenv("VERIF_SEED"); s != "" {
		seed, _ = strconv.ParseInt(s, 10, 64)
	}
	f, ok := checks[*prop]
	if !ok {
		fmt.Fprintf(os.Stderr, "no check registered for %q\n", *prop)
		return 2
	}
	defer func() {
		if e := recover(); e != nil {
			if ae, ok := e.(analysisError); ok {
				fmt.Fprintf(os.Stderr, "ANALYSIS-ERROR property=%s: %s\n", *prop, ae.msg)
				code = 2
				return
			}
			panic(e)
		}
	}()
	abs, _ := filepath.Abs(*repo)
	r := newReport(*prop, *tier, seed)
	p := loadProgram(abs, "", nil)
	f(p, r)
	return r.finish(*verif)
}

func cmdExplain(args []string) int {
	if len(args) < 1 {
		return 2
	}
	b, err := os.ReadFile(args[0])
	if err != nil {
		fmt.Fprintln(os.Stderr, err)
		return 2
	}
	fmt.Println(string(b))
	return 0
}

// cmdDebug runs the file-protocol analysis and prints everything.
func cmdDebug(args []string) (code int) {
	fs := flag.NewFlagSet("debug", flag.ExitOnError)
	repo := fs.String("repo", "/repo", "repository root")
	only := fs.String("entry", "", "only this entry point")
	wit := fs.Bool("witness", false, "print witnesses")
	fs.Parse(args)
	defer func() {
		if e := recover(); e != nil {
			if ae, ok := e.(analysisError); ok {
				fmt.Fprintf(os.Stderr, "ANALYSIS-ERROR: %s\n", ae.msg)
				code = 2
				return
			}
			panic(e)
		}
	}()
	p := loadProgram(*repo, "", nil)
	rules, runs := runFsproto(p, *only)
	for _, r := range runs {
		fmt.Printf("entry %-28s paths=%d states=%d forks=%d loops=%d rounds=%d inlined=%d merged=%d funcs=%d\n", r.Entry, r.Paths, r.States, r.Forks, r.Loops, r.Rounds, r.Inlined, r.Merged, len(r.Funcs))
	}
	for ru, es := range rules.seen {
		var l []string
		for e := range es {
			l = append(l, e)
		}
		sort.Strings(l)
		fmt.Printf("seen %-22s %d: %s\n", ru, len(l), strings.Join(l, " | "))
	}
	var ks []string
	for k := range rules.obl {
		ks = append(ks, k)
	}
	sort.Strings(ks)
	for _, k := range ks {
		o := rules.obl[k]
		s := "ok  "
		if !o.OK {
			s = "VIOL"
		}
		fmt.Printf("%s %s\n", s, k)
		if !o.OK {
			v := rules.viol[k]
			fmt.Printf("       %s: %s\n", v.Where, v.Message)
			if *wit {
				for _, w := range v.Witness {
					if strings.Contains(w, "event") || strings.Contains(w, "branch") || true {
						fmt.Printf("         %s\n", w)
					}
				}
			}
		}
	}
	return 0
}

// runFsproto analyses all entry points (or one).
func runFsproto(p *Program, only string) (*fsRules, []fsRun) {
	rules := newFsRules()
	c := newFsClient(p, rules)
	var runs []fsRun
	eps := fsEntryPoints(p)
	// AutoCompact first: its result summary is used inside Stack.Add
	sort.SliceStable(eps, func(i, j int) bool {
		return funcKey(eps[i]) == "(*Stack).AutoCompact" && funcKey(eps[j]) != "(*Stack).AutoCompact"
	})
	for _, fn := range eps {
		if only != "" && funcKey(fn) != only && !(funcKey(fn) == "(*Stack).AutoCompact" && only == "(*Stack).Add") {
			continue
		}
		c.runEntry(fn, &runs)
	}
	if only != "" && len(runs) == 0 && only != "protocol" {
		if fn := p.Func(only); fn != nil {
			c.runEntry(fn, &runs)
		}
	}
	if only == "" || only == "protocol" {
		c.runProtocol(&runs)
	}
	return rules, runs
}
