package main

import (
	"go/types"

	"fmt"
	"go/token"
	"golang.org/x/tools/go/ssa"
	"sort"
	"strings"
)

func compareLayout(r *Report, rule, what string, got, want layoutTable, keys []string) {
	for _, k := range keys {
		g, okg := got[k]
		w, okw := want[k]
		key := what + " / " + k
		switch {
		case !okw:
			continue
		case !okg:
			r.violate(rule, key, "-", fmt.Sprintf("cannot extract %s (expected %q)", k, w), nil)
		case g != w:
			r.violate(rule, key, "-", fmt.Sprintf("%s is %q, expected %q", k, g, w), nil)
		default:
			r.ok(rule, key, g)
		}
	}
}

func sortedLayoutKeys(t layoutTable) []string {
	var ks []string
	for k := range t {
		ks = append(ks, k)
	}
	sort.Strings(ks)
	return ks
}

func checkGoLayoutAgainstSpec(p *Program, r *Report) layoutTable {
	g := goLayout(p)
	compareLayout(r, "LAYOUT-SPEC", "Go vs format specification", g, specLayout, sortedLayoutKeys(specLayout))
	// internal identities (C01.2)
	ident := func(name string, ok bool, msg string) {
		if ok {
			r.ok("LAYOUT-IDENT", "Go / "+name, msg)
		} else {
			r.violate("LAYOUT-IDENT", "Go / "+name, "-", msg+" does not hold", nil)
		}
	}
	atoi := func(s string) int {
		n := 0
		fmt.Sscanf(s, "%d", &n)
		return n
	}
	ident("footerSize(v) = headerSize(v) + sizeof(footer) + 4", atoi(g["footer_size.v1"]) == atoi(g["header_size.v1"])+atoi(g["footer.struct_size"])+4 && atoi(g["footer_size.v2"]) == atoi(g["header_size.v2"])+atoi(g["footer.struct_size"])+4,
		"footerSize(v) = headerSize(v) + sizeof(footer struct) + 4 (crc)")
	ident("headerSize(2) = sizeof(header), headerSize(1) = sizeof(header) - 4", atoi(g["header_size.v2"]) == atoi(g["header.struct_size"]) && atoi(g["header_size.v1"]) == atoi(g["header.struct_size"])-4,
		"headerSize(2) = sizeof(header struct) and headerSize(1) = sizeof(header struct) - 4 (hash id)")
	ident("writer and reader serialise the same struct types in big endian", g["serialise.writer"] == "footer/bigEndian,header/bigEndian" && g["serialise.reader"] == "footer/bigEndian,header/bigEndian",
		"binary.Write (writer) and binary.Read (reader) are applied to header and footer with binary.BigEndian: "+g["serialise.writer"]+" / "+g["serialise.reader"])
	ident("footer fields are filled from the statistics of the section they name", g["footer.sources"] == "log=log,log_index=log_index,obj=obj,obj_index=obj_index,ref_index=ref_index",
		"footer literal wiring: "+g["footer.sources"])
	return g
}

func init() {
	checks["C14"] = func(p *Program, r *Report) {
		checkGoLayoutAgainstSpec(p, r)
		checkRestartCap(p, r)
		copyRules(p, r, checkWireSeq, "WIRE-SPEC", "KEY-BITS", "LOGKEY-CODEC")
		// index sections: every flushed block gets exactly one entry with its start offset,
		// no index block is lost and no entry leaks into another section
		copyRules(p, r, checkWriterTypestate, "NO-DROP", "SECTION-CLEAN", "INDEX-OFFSET", "FLUSH-SUMMARY")
		checkPadAccount(p, r)
		checkKeyBytewise(p, r)
		checkAddAtomic(p, r)
		checkObjListWhole(p, r)
		checkIndexRoot(p, r)
		checkLogDeflated(p, r)
		checkObjCountAgree(p, r)
		checkObjIndexEveryBlock(p, r)
		r.Engines = []string{"layout", "dtable", "wireseq", "pathsim", "bounds"}
		r.Explanation = "Format constants and layouts are extracted from the resolved Go program (constant evaluation, struct sizes and field order, partial evaluation of headerSize/footerSize, SSA patterns for shifts, masks and widths, the struct types handed to encoding/binary, string literals) and compared entry by entry with a frozen table transcribed from the reftable format description; identities between struct sizes and size functions are checked; restart points obey the 16-bit cap and the prefix-length-zero rule; the wire sequence of every ref, log and index record value type written by the encoder equals the sequence the format prescribes, and the key codec uses 3 type bits. A change made symmetrically to writer and reader (which the round-trip tests cannot see) changes the extracted table and is reported."
		r.NotDecided = []string{"that a particular emitted file parses (needs the arithmetic of C01)", "index and object-index contents", "zero padding lengths"}
		r.Assumptions = []string{"the frozen table is a faithful transcription of the format specification"}
	}
	checks["C15"] = func(p *Program, r *Report) {
		g := goLayout(p)
		c, err := cLayout(p.Repo)
		if err != nil {
			fatalf("C sources cannot be parsed: %v", err)
		}
		keys := sortedLayoutKeys(c)
		cmp := layoutTable{}
		for _, k := range keys {
			if k == "footer.fields.reader" {
				cmp[k] = g["footer.fields"]
				continue
			}
			cmp[k] = g[k]
		}
		compareLayout(r, "LAYOUT-C-GO", "C vs Go", c, cmp, keys)
		r.floor("LAYOUT-C-GO", len(keys), 20, "layout entries extracted from the C sources")
		checkListParse(p, r)
		// the C reader inflates every log block: the Go side never writes (or accepts) a stored one
		checkLogDeflated(p, r)
		// the C reader visits only the ref blocks an object record lists: the Go writer
		// omits a position list only when it does not fit (as the C writer does)
		checkObjListWhole(p, r)
		r.Engines = []string{"layout", "pathsim"}
		r.Samples = append(r.Samples, map[string]interface{}{"c_layout": c})
		r.Explanation = "The table of format constants and layouts extracted from the C sources (macros through clang -E -dM, header_size/footer_size switch arms, the put_be/get_be sequences of the header writer, footer writer and footer parser, and the literals of stack.c through clang's JSON AST and preprocessor; parsed only, never compiled or run) equals, entry by entry, the table extracted from the Go sources by constant evaluation, type structure and SSA patterns."
		r.NotDecided = []string{"behavioural equivalence of the two code bases on any input", "record wire sequences of the C side", "trailing newline handling of tables.list (Go drops empty lines, C ends every name with a newline)"}
		r.Assumptions = []string{"clang 14 parses the C sources as the real build would (include paths c/ and c/include)"}
	}
}

// checkRestartCap (C01, C14): a restart point is recorded only while the
// count still fits the 16-bit restart count field, and exactly when the
// record's key is stored without prefix compression.
func checkRestartCap(p *Program, r *Report) {
	// anchors: the functions that append to the block writer's restart table
	bwT := p.namedType("blockWriter")
	bwS, _ := bwT.Underlying().(*types.Struct)
	ri := -1
	for i := 0; bwS != nil && i < bwS.NumFields(); i++ {
		if sl, ok := bwS.Field(i).Type().Underlying().(*types.Slice); ok {
			if bt, ok := sl.Elem().Underlying().(*types.Basic); ok && bt.Kind() == types.Uint32 {
				if ri >= 0 {
					fatalf("unresolved anchor: restart table of the block writer (two []uint32 fields)")
				}
				ri = i
			}
		}
	}
	if ri < 0 {
		fatalf("unresolved anchor: restart table of the block writer ([]uint32 field)")
	}
	fieldName := fieldAux(bwT, ri)
	var fns []*ssa.Function
	for _, f := range p.Funcs {
		found := false
		for _, b := range f.Blocks {
			for _, ins := range b.Instrs {
				sto, ok := ins.(*ssa.Store)
				if !ok {
					continue
				}
				fa, ok := sto.Addr.(*ssa.FieldAddr)
				if !ok || fa.Field != ri {
					continue
				}
				if pt, ok := fa.X.Type().Underlying().(*types.Pointer); !ok || !types.Identical(pt.Elem(), bwT) {
					continue
				}
				if _, _, isApp := appendOf(sto.Val); isApp {
					found = true
				}
			}
		}
		if found {
			fns = append(fns, f)
		}
	}
	sort.Slice(fns, func(i, j int) bool { return funcKey(fns[i]) < funcKey(fns[j]) })
	var stores []*State
	for _, f := range fns {
		fk := funcKey(f)
		var fst []*State
		cfg := &simCfg{NoInlineDefault: true, NoLoopSamples: true,
			OnStoreHook: func(c *simClient, x *Exec, st *State, fr *Frame, pos token.Pos, addr, val, old *Term) {
				if addr.Op == "field" && addr.Aux == fieldName && fr.fn == f {
					fst = append(fst, st.clone())
				}
			}}
		runSim(p, f, cfg, nil)
		recv := mk("param", fk+"."+f.Params[0].Name(), nil)
		// the restart flag: a boolean parameter, or the flag encodeKey returned
		var flags []*Term
		for _, pa := range f.Params {
			if bt, ok := pa.Type().Underlying().(*types.Basic); ok && bt.Kind() == types.Bool {
				flags = append(flags, mk("param", fk+"."+pa.Name(), pa.Type()))
			}
		}
		cnt := mk("len", "", nil, mk("init", "", nil, mk("field", fieldName, nil, recv)))
		for _, st := range fst {
			w := witnessOf(p, st.trace)
			if ok, cex := implied(st, fAtom(tLt(cnt, tConst("65535", nil)))); !ok {
				r.violate("DT-RESTART-CAP", fk+" / restart count fits 16 bits", p.pos(f.Pos()), "a restart point can be recorded when the block already has 65535 of them: the 2-byte restart count written at the end of the block wraps around: "+cex, w)
			} else {
				r.ok("DT-RESTART-CAP", fk+" / restart count fits 16 bits", "append => len(restarts) < 65535")
			}
			isRestart := false
			for _, fl := range flags {
				if st.truth(fl) == 1 {
					isRestart = true
				}
			}
			for _, k := range sortedFactKeys(st) {
				t := st.fterm[k]
				if t != nil && st.facts[k] && t.Op == "extract" && t.Aux == "1" && len(t.Args) > 0 && t.Args[0].Op == "call" && t.Args[0].Aux == "encodeKey" {
					isRestart = true
				}
			}
			if !isRestart {
				r.violate("DT-RESTART-CAP", fk+" / only full keys are restart points", p.pos(f.Pos()), "a restart point can be recorded for a record whose key is prefix-compressed", w)
			} else {
				r.ok("DT-RESTART-CAP", fk+" / only full keys are restart points", "append => restart flag (prefix length 0)")
			}
		}
		stores = append(stores, fst...)
	}
	r.floor("DT-RESTART-CAP", len(stores), 1, "paths recording a restart point")
	// the restart flag is "prefix length is zero"
	ek := p.MustFunc("encodeKey")
	c2, _ := runSim(p, ek, &simCfg{Pure: map[string]bool{"commonPrefixSize": true}, Opaque: map[string]bool{"putVarInt": true}, NoInlineDefault: true, NoLoopSamples: true}, nil)
	n := 0
	for _, s := range c2.Samples {
		if s.Kind != "ret" || s.Panic || len(s.Vals) != 3 || s.Vals[2] == tFalse {
			continue
		}
		n++
		rv := s.Vals[1]
		good := rv.Op == "eq" && ((rv.Args[0].isConst() && rv.Args[0].Aux == "0" && rv.Args[1].Op == "pcall") || (rv.Args[1].isConst() && rv.Args[1].Aux == "0" && rv.Args[0].Op == "pcall"))
		if !good {
			r.violate("DT-RESTART-CAP", "encodeKey / restart <=> no common prefix", p.pos(ek.Pos()), "encodeKey reports a restart for something other than 'common prefix length = 0': "+rv.String(), witnessOf(p, s.St.trace))
		} else {
			r.ok("DT-RESTART-CAP", "encodeKey / restart <=> no common prefix", "restart = (commonPrefixSize(prev, key) == 0)")
		}
	}
	r.floor("DT-RESTART-CAP.encodeKey", n, 1, "successful returns of encodeKey")
}

// checkListParse (C15): the list reader returns only non-empty lines (the C
// implementation ends every name with a newline, the Go one joins them).
func checkListParse(p *Program, r *Report) {
	f := p.MustFunc("(*Stack).readNames")
	fk := funcKey(f)
	unchecked := ""
	cfg := &simCfg{Pure: map[string]bool{"bytes.Split": true, "strings.Split": true}, Opaque: map[string]bool{"io/ioutil.ReadFile": true, "os.ReadFile": true, "os.IsNotExist": true}, NoInlineDefault: true, NoLoopSamples: true,
		OnStoreHook: func(c *simClient, x *Exec, st *State, fr *Frame, pos token.Pos, addr, val, old *Term) {
			// a name list grows (stored cell or loop-carried slice): the line added must be known non-empty
			if val.Op != "list" {
				return
			}
			for _, m := range val.Args {
				if !m.containsOp("loopcur") {
					continue
				}
				if st.truth(tLt(tConst("0", nil), mk("len", "", nil, m))) != 1 {
					unchecked = m.String()
				}
			}
		}}
	// the splitting and filtering may live in a helper of the list reader
	cfg.Inline = map[string]bool{}
	for _, h := range withHelpers(p, f)[1:] {
		if k := funcKey(h); !cfg.Pure[k] && !cfg.Opaque[k] && h.Parent() == nil {
			cfg.Inline[k] = true
		}
	}
	c, _ := runSim(p, f, cfg, nil)
	n := 0
	for _, s := range c.Samples {
		if s.Kind != "ret" || s.Panic || s.St.truth(tEq(s.Vals[1], tNil)) == 0 || s.Vals[0].isNilConst() {
			continue
		}
		n++
		okAll := s.Vals[0].Op == "list"
		why := s.Vals[0].String()
		if okAll {
			for _, m := range s.Vals[0].Args {
				line := m
				if !(line.Op == "elem" && line.Args[0].Op == "pcall" && strings.HasSuffix(line.Args[0].Aux, ".Split")) {
					okAll = false
					why = "member " + m.String() + " is not a line of the split file"
					continue
				}
				sep := line.Args[0].Args[len(line.Args[0].Args)-1]
				if s2, ok := constString(sep); (!ok || s2 != "\n") && !isNewlineBytes(s.St, sep) {
					okAll = false
					why = "the file is not split on newline"
				}
			}
			if unchecked != "" {
				okAll = false
				why = "line " + unchecked + " is added to the names without its length having been tested"
			}
		}
		key := fk + " / only non-empty lines are table names"
		if !okAll {
			r.violate("LIST-PARSE", key, p.pos(f.Pos()), "the list reader can return an empty name (the C implementation terminates every name with a newline, so the last line is empty): "+why, witnessOf(p, s.St.trace))
		} else {
			r.ok("LIST-PARSE", key, "names = non-empty lines of the file split on newline")
		}
	}
	r.floor("LIST-PARSE", n, 1, "successful returns of the list reader")
}

// isNewlineBytes: the value is the byte slice literal []byte{'\n'} (a slice of
// a one-element array whose only cell holds 10).
func isNewlineBytes(st *State, t *Term) bool {
	base := t
	for base.Op == "slice" || base.Op == "subslice" {
		base = base.Args[0]
	}
	if base.Op != "alloc" {
		return false
	}
	n, ten := 0, false
	for _, c := range st.mem {
		if c.addr != nil && c.addr.Op == "index" && c.addr.Args[0] == base {
			n++
			if c.val != nil && c.val.isConst() && c.val.Aux == "10" && c.addr.Args[1].isConst() && c.addr.Args[1].Aux == "0" {
				ten = true
			}
		}
	}
	return n == 1 && ten
}
