package main

import (
	"go/token"
	"go/types"
	"strconv"

	"golang.org/x/tools/go/ssa"
)

// Positional list comprehensions.
//
// A loop of the shape
//
//	var out []T
//	for _, v := range s { out = append(out, e(v)) }
//
// (exactly one unconditional append per iteration, nothing else written, the
// only exit through the range condition) builds a slice whose k-th element is
// e(s[k]) and whose length is len(s).  The generic loop analysis abstracts
// such a result to a set, which loses the positions; code that later slices
// the result (names[:first], names[last+1:]) or compares it element-wise with
// another list then cannot be related to s any more.  With Exec.Comprehend
// the loop is summarised instead by a family term
//
//	fam[id](s, e(famidx[id]))
//
// with elem(fam, k) = e[famidx := k] and len(fam) = len(s).

func famIdx(id string) *Term { return mk("famidx", id, types.Typ[types.Int]) }

// elemOf builds the element term base[idx], resolving families.
func elemOf(base, idx *Term, typ types.Type) *Term {
	if base.Op == "fam" {
		return base.Args[1].subst(famIdx(base.Aux), idx)
	}
	return mk("elem", "", typ, base, idx)
}

// tryComprehension recognises the loop shape on the SSA form and, if it
// matches, returns the single loop exit with the accumulating phi bound to a
// family term.
func (x *Exec) tryComprehension(fr *Frame, li *loopInfo, pred *ssa.BasicBlock, st *State) ([]blockOut, bool) {
	if !x.Comprehend || len(li.blocks) != 2 {
		return nil, false
	}
	h := li.header
	if len(h.Succs) != 2 || len(h.Preds) != 2 {
		return nil, false
	}
	var body, exit *ssa.BasicBlock
	for _, s := range h.Succs {
		if li.blocks[s] {
			body = s
		} else {
			exit = s
		}
	}
	if body == nil || exit == nil || len(body.Succs) != 1 || body.Succs[0] != h || len(body.Preds) != 1 {
		return nil, false
	}
	// header: two phis, inc, compare, if
	var phiA, phiI *ssa.Phi
	var inc, cmp *ssa.BinOp
	for _, ins := range h.Instrs {
		switch v := ins.(type) {
		case *ssa.Phi:
			if _, isSl := v.Type().Underlying().(*types.Slice); isSl {
				if phiA != nil {
					return nil, false
				}
				phiA = v
			} else {
				if phiI != nil {
					return nil, false
				}
				phiI = v
			}
		case *ssa.BinOp:
			if v.Op == token.ADD && inc == nil {
				inc = v
			} else if v.Op == token.LSS && cmp == nil {
				cmp = v
			} else {
				return nil, false
			}
		case *ssa.If, *ssa.DebugRef:
		default:
			return nil, false
		}
	}
	if phiA == nil || phiI == nil || inc == nil || cmp == nil {
		return nil, false
	}
	one, ok := inc.Y.(*ssa.Const)
	if !ok || inc.X != phiI || one.Value == nil || one.Value.ExactString() != "1" || cmp.X != inc {
		return nil, false
	}
	if iff, ok := h.Instrs[len(h.Instrs)-1].(*ssa.If); !ok || iff.Cond != cmp || h.Succs[0] != body {
		return nil, false
	}
	lenCall, ok := cmp.Y.(*ssa.Call)
	if !ok || li.blocks[lenCall.Block()] {
		return nil, false
	}
	if b, ok := lenCall.Call.Value.(*ssa.Builtin); !ok || b.Name() != "len" {
		return nil, false
	}
	src := lenCall.Call.Args[0]
	if _, isSl := src.Type().Underlying().(*types.Slice); !isSl {
		return nil, false
	}
	// phi edges
	pi, bi := -1, -1
	for i, p := range h.Preds {
		if p == body {
			bi = i
		} else {
			pi = i
		}
	}
	if pi < 0 || bi < 0 || (pred != nil && h.Preds[pi] != pred) {
		return nil, false
	}
	if c, ok := phiI.Edges[pi].(*ssa.Const); !ok || c.Value == nil || c.Value.ExactString() != "-1" || phiI.Edges[bi] != inc {
		return nil, false
	}
	if init := x.val(fr, phiA.Edges[pi]); !init.isNilConst() && !(init.Op == "list" && len(init.Args) == 0) {
		return nil, false
	}
	// body: loads, the varargs array, exactly one append to phiA
	var app *ssa.Call
	for _, ins := range body.Instrs {
		switch v := ins.(type) {
		case *ssa.IndexAddr, *ssa.FieldAddr, *ssa.Field, *ssa.Index, *ssa.Alloc, *ssa.Slice, *ssa.Jump, *ssa.DebugRef, *ssa.ChangeType, *ssa.Convert, *ssa.BinOp:
		case *ssa.UnOp:
			if v.Op != token.MUL {
				return nil, false
			}
		case *ssa.Store:
			ia, ok := v.Addr.(*ssa.IndexAddr)
			if !ok {
				return nil, false
			}
			if _, isAlloc := ia.X.(*ssa.Alloc); !isAlloc {
				return nil, false
			}
		case *ssa.Call:
			if cal := v.Call.StaticCallee(); cal != nil && trivialGetter(cal) {
				continue // r.Name() and the like: a field read behind a method
			}
			b, ok := v.Call.Value.(*ssa.Builtin)
			if !ok || b.Name() != "append" || app != nil || v.Call.Args[0] != phiA {
				return nil, false
			}
			app = v
		default:
			return nil, false
		}
	}
	if app == nil || phiA.Edges[bi] != app {
		return nil, false
	}
	// the loop variable and the accumulator are not used after the loop except
	// through the accumulating phi
	for _, ref := range *inc.Referrers() {
		if !li.blocks[ref.Block()] {
			return nil, false
		}
	}
	for _, ref := range *phiI.Referrers() {
		if !li.blocks[ref.Block()] {
			return nil, false
		}
	}
	// evaluate the body once for the generic position
	id := fr.ctx + "/" + funcKey(fr.fn) + "#b" + strconv.Itoa(h.Index)
	k := famIdx(id)
	f2 := fr.clone()
	s2 := st.clone()
	f2.env[inc] = k
	f2.env[phiI] = mk("bin", "-", types.Typ[types.Int], k, tConst("1", types.Typ[types.Int]))
	f2.env[phiA] = tNil
	// all alternative values of the appended element (several when the source
	// is an abstract list: one per member)
	var elems []*Term
	okAll := true
	var run func(i int, f *Frame, s *State)
	run = func(i int, f *Frame, s *State) {
		for ; i < len(body.Instrs) && okAll; i++ {
			ins := body.Instrs[i]
			if ins == ssa.Instruction(app) {
				es, ok := x.sliceElems(s, x.val(f, app.Call.Args[1]))
				if !ok || len(es) != 1 {
					okAll = false
					return
				}
				elems = append(elems, es[0])
				continue
			}
			if _, isJ := ins.(*ssa.Jump); isJ {
				continue
			}
			alts := x.step(f, ins, s)
			if len(alts) == 0 {
				return // infeasible alternative (e.g. drawing from an empty list)
			}
			if len(alts) > 1 {
				for _, a := range alts {
					fa := f.clone()
					if v, ok := ins.(ssa.Value); ok && a.val != nil {
						fa.env[v] = a.val
					}
					run(i+1, fa, a.st.clone())
				}
				return
			}
			s = alts[0].st
			if v, ok := ins.(ssa.Value); ok && alts[0].val != nil {
				f.env[v] = alts[0].val
			}
		}
	}
	run(0, f2, s2)
	if !okAll {
		return nil, false
	}
	srcT := x.val(fr, src)
	var fam *Term
	switch {
	case srcT.Op == "list" || srcT.isNilConst():
		// mapping over an abstract list: the image of its members
		seen := map[string]bool{}
		var ms []*Term
		for _, e := range elems {
			if e.contains(k) {
				return nil, false
			}
			if !seen[e.key] {
				seen[e.key] = true
				ms = append(ms, e)
			}
		}
		fam = tList(srcT.Op == "list" && srcT.Aux == "exact" && len(ms) == len(srcT.Args), ms)
	case len(elems) == 1 && elems[0].contains(k):
		fam = mk("fam", id, phiA.Type(), srcT, elems[0])
	default:
		return nil, false
	}
	fo := fr.clone()
	fo.env[phiA] = fam
	fo.env[phiI] = mk("bin", "-", types.Typ[types.Int], x.val(fr, lenCall), tConst("1", types.Typ[types.Int]))
	fo.env[inc] = x.val(fr, lenCall)
	fo.env[cmp] = tFalse
	so := st.clone()
	so.note(h.Instrs[0].Pos(), "list comprehension over %s summarised", x.val(fr, src))
	if fam.Op == "list" && srcT.Op == "list" {
		// the image of an abstract list: same length, and its provenance is kept
		// so that rules can read it as "e of the members of src"
		so.setFact(tEq(mk("len", "", types.Typ[types.Int], fam), mk("len", "", types.Typ[types.Int], srcT)), true)
		so.mem["famsrc:"+fam.key] = cell{fam, srcT}
	}
	x.NComprehended++
	return []blockOut{{kind: outLoopExit, st: so, fr: fo, target: exit, from: h}}, true
}

// anyMember returns a term for "some element of the opaque slice b" (used when
// b is appended as a whole): b[q] for a fresh position q constrained to the
// bounds of b, with sub-slices resolved to positions of the underlying slice.
func (x *Exec) anyMember(st *State, fr *Frame, id string, b *Term) *Term {
	q := mk("anyidx", fr.ctx+"/"+id, types.Typ[types.Int], x.curMark())
	zero := tConst("0", types.Typ[types.Int])
	lo, base := zero, b
	var hi *Term
	// lo, hi are kept in the coordinates of the slice currently being peeled;
	// hi == nil stands for its length
	for base.Op == "subslice" && len(base.Args) == 3 && base.Args[0].Op != "list" && !base.Args[0].isNilConst() {
		l, h := base.Args[1], base.Args[2]
		switch {
		case hi != nil && !l.isNilConst():
			hi = x.binop(token.ADD, hi, l, types.Typ[types.Int])
		case hi == nil && !h.isNilConst():
			hi = h
		}
		if !l.isNilConst() {
			lo = x.binop(token.ADD, lo, l, types.Typ[types.Int])
		}
		base = base.Args[0]
	}
	if hi == nil {
		if base.Op == "fam" {
			if hi = x.normLen(base.Args[0], types.Typ[types.Int]); hi == nil {
				hi = mk("len", "", types.Typ[types.Int], base.Args[0])
			}
		} else {
			hi = mk("len", "", types.Typ[types.Int], base)
		}
	}
	if st.truth(tLt(lo, hi)) == 0 {
		return nil // empty range: no member
	}
	st.setFact(tLt(q, lo), false)
	st.setFact(tLt(q, zero), false)
	st.setFact(tLt(q, hi), true)
	var et types.Type
	if sl, ok := b.Typ.(*types.Slice); ok {
		et = sl.Elem()
	}
	return elemOf(base, q, et)
}

// membersOf: the members of a slice value as the abstract list domain sees
// them; an opaque slice or family contributes one quantified member.
func (x *Exec) membersOf(st *State, fr *Frame, id string, a *Term) []*Term {
	if x.Comprehend && !a.isNilConst() && (a.Op == "fam" || (a.Op == "subslice" && a.Args[0].Op != "list")) {
		if m := x.anyMember(st, fr, id, a); m != nil {
			return []*Term{m}
		}
		return nil
	}
	return listMembers(a)
}

// trivialGetter: a single-block function that only reads fields of its
// arguments and returns.
func trivialGetter(f *ssa.Function) bool {
	if len(f.Blocks) != 1 {
		return false
	}
	for _, ins := range f.Blocks[0].Instrs {
		switch v := ins.(type) {
		case *ssa.FieldAddr, *ssa.Field, *ssa.Return, *ssa.DebugRef:
		case *ssa.UnOp:
			if v.Op != token.MUL {
				return false
			}
		default:
			return false
		}
	}
	return true
}
