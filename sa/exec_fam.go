package main

import (
	"go/token"
	"go/types"
	"strconv"

	"golang.org/x/tools/go/ssa"
)

// Positional list comprehensions.
//
// A loop of the shape
//
//	var out []T
//	for _, v := range s { out = append(out, e(v)) }
//
// (exactly one unconditional append per iteration, nothing else written, the
// only exit through the range condition) builds a slice whose k-th element is
// e(s[k]) and whose length is len(s).  The generic loop analysis abstracts
// such a result to a set, which loses the positions; code that later slices
// the result (names[:first], names[last+1:]) or compares it element-wise with
// another list then cannot be related to s any more.  With Exec.Comprehend
// the loop is summarised instead by a family term
//
//	fam[id](s, e(famidx[id]))
//
// with elem(fam, k) = e[famidx := k] and len(fam) = len(s).

func famIdx(id string) *Term { return mk("famidx", id, types.Typ[types.Int]) }

// elemOf builds the element term base[idx], resolving families.
func elemOf(base, idx *Term, typ types.Type) *Term {
	if base.Op == "fam" {
		return base.Args[1].subst(famIdx(base.Aux), idx)
	}
	return mk("elem", "", typ, base, idx)
}

// tryComprehension recognises the loop shape on the SSA form and, if it
// matches, returns the single loop exit with the accumulating phi bound to a
// family term.
func (x *Exec) tryComprehension(fr *Frame, li *loopInfo, pred *ssa.BasicBlock, st *State) ([]blockOut, bool) {
	if !x.Comprehend || len(li.blocks) != 2 {
		return nil, false
	}
	h := li.header
	if len(h.Succs) != 2 || len(h.Preds) != 2 {
		return nil, false
	}
	var body, exit *ssa.BasicBlock
	for _, s := range h.Succs {
		if li.blocks[s] {
			body = s
		} else {
			exit = s
		}
	}
	if body == nil || exit == nil || len(body.Succs) != 1 || body.Succs[0] != h || len(body.Preds) != 1 {
		return nil, false
	}
	// header: an index phi, optionally the accumulating slice phi, the
	// increment (range loops), the bound (len of the source, possibly loaded
	// in the header), compare, if
	var phiA, phiI *ssa.Phi
	var hinc, cmp *ssa.BinOp
	var hdrEval []ssa.Instruction // header instructions evaluated for the generic position
	for _, ins := range h.Instrs {
		switch v := ins.(type) {
		case *ssa.Phi:
			if _, isSl := v.Type().Underlying().(*types.Slice); isSl {
				if phiA != nil {
					return nil, false
				}
				phiA = v
			} else {
				if phiI != nil {
					return nil, false
				}
				phiI = v
			}
		case *ssa.BinOp:
			if v.Op == token.ADD && hinc == nil {
				hinc = v
			} else if v.Op == token.LSS && cmp == nil {
				cmp = v
			} else {
				return nil, false
			}
		case *ssa.FieldAddr:
			hdrEval = append(hdrEval, ins)
		case *ssa.UnOp:
			if v.Op != token.MUL {
				return nil, false
			}
			hdrEval = append(hdrEval, ins)
		case *ssa.Call:
			if b, ok := v.Call.Value.(*ssa.Builtin); !ok || b.Name() != "len" {
				return nil, false
			}
			hdrEval = append(hdrEval, ins)
		case *ssa.If, *ssa.DebugRef:
		default:
			return nil, false
		}
	}
	if phiI == nil || cmp == nil {
		return nil, false
	}
	if iff, ok := h.Instrs[len(h.Instrs)-1].(*ssa.If); !ok || iff.Cond != cmp || h.Succs[0] != body {
		return nil, false
	}
	lenCall, ok := cmp.Y.(*ssa.Call)
	if !ok {
		return nil, false
	}
	if b, ok := lenCall.Call.Value.(*ssa.Builtin); !ok || b.Name() != "len" {
		return nil, false
	}
	if li.blocks[lenCall.Block()] && lenCall.Block() != h {
		return nil, false
	}
	src := lenCall.Call.Args[0]
	if _, isSl := src.Type().Underlying().(*types.Slice); !isSl {
		return nil, false
	}
	// phi edges
	pi, bi := -1, -1
	for i, p := range h.Preds {
		if p == body {
			bi = i
		} else {
			pi = i
		}
	}
	if pi < 0 || bi < 0 || (pred != nil && h.Preds[pi] != pred) {
		return nil, false
	}
	// the position: range loops count from -1 and increment in the header,
	// index loops count from 0 and increment at the end of the body
	var idx ssa.Value
	var binc *ssa.BinOp
	isOne := func(v ssa.Value) bool {
		c, ok := v.(*ssa.Const)
		return ok && c.Value != nil && c.Value.ExactString() == "1"
	}
	c0, ok := phiI.Edges[pi].(*ssa.Const)
	if !ok || c0.Value == nil {
		return nil, false
	}
	switch {
	case hinc != nil && c0.Value.ExactString() == "-1" && hinc.X == phiI && isOne(hinc.Y) && cmp.X == hinc && phiI.Edges[bi] == hinc && len(hdrEval) == 0:
		idx = hinc
	case hinc == nil && c0.Value.ExactString() == "0" && cmp.X == phiI:
		b, ok := phiI.Edges[bi].(*ssa.BinOp)
		if !ok || b.Op != token.ADD || b.X != phiI || !isOne(b.Y) || b.Block() != body {
			return nil, false
		}
		binc, idx = b, phiI
	default:
		return nil, false
	}
	if phiA != nil {
		if init := x.val(fr, phiA.Edges[pi]); !init.isNilConst() && !(init.Op == "list" && len(init.Args) == 0) {
			return nil, false
		}
	}
	// body: loads, the varargs array, and exactly one append to phiA or one
	// store dst[idx] = e into a slice made (outside the loop) with the length
	// of the source
	var app *ssa.Call
	var fill *ssa.Store
	var dst *ssa.MakeSlice
	for _, ins := range body.Instrs {
		switch v := ins.(type) {
		case *ssa.IndexAddr, *ssa.FieldAddr, *ssa.Field, *ssa.Index, *ssa.Alloc, *ssa.Slice, *ssa.Jump, *ssa.DebugRef, *ssa.ChangeType, *ssa.Convert, *ssa.MakeInterface, *ssa.ChangeInterface:
		case *ssa.BinOp:
		case *ssa.UnOp:
			if v.Op != token.MUL {
				return nil, false
			}
		case *ssa.Store:
			ia, ok := v.Addr.(*ssa.IndexAddr)
			if !ok {
				return nil, false
			}
			if _, isAlloc := ia.X.(*ssa.Alloc); isAlloc {
				continue // the varargs array of append
			}
			m, isMake := ia.X.(*ssa.MakeSlice)
			if !isMake || li.blocks[m.Block()] || ia.Index != idx || fill != nil || phiA != nil {
				return nil, false
			}
			fill, dst = v, m
		case *ssa.Call:
			if cal := v.Call.StaticCallee(); cal != nil && trivialGetter(cal) {
				continue // r.Name() and the like: a field read behind a method
			}
			if b, ok := v.Call.Value.(*ssa.Builtin); ok && b.Name() == "len" {
				continue
			}
			b, ok := v.Call.Value.(*ssa.Builtin)
			if !ok || b.Name() != "append" || app != nil || phiA == nil || v.Call.Args[0] != phiA {
				return nil, false
			}
			app = v
		default:
			return nil, false
		}
	}
	switch {
	case phiA != nil:
		if app == nil || phiA.Edges[bi] != app {
			return nil, false
		}
	case fill != nil:
		// made with exactly the source's length, and not visible to anything
		// before the loop has filled it
		if x.val(fr, dst.Len) != x.val(fr, lenCallOutside(fr, x, lenCall, h, st)) {
			return nil, false
		}
		for _, ref := range *dst.Referrers() {
			if li.blocks[ref.Block()] {
				continue
			}
			if !exit.Dominates(ref.Block()) {
				return nil, false
			}
		}
	default:
		return nil, false
	}
	// the loop variable is not used after the loop
	var loopVars []ssa.Value
	loopVars = append(loopVars, phiI)
	if hinc != nil {
		loopVars = append(loopVars, hinc)
	}
	if binc != nil {
		loopVars = append(loopVars, binc)
	}
	for _, v := range loopVars {
		for _, ref := range *v.Referrers() {
			if !li.blocks[ref.Block()] {
				return nil, false
			}
		}
	}
	// evaluate the body once for the generic position
	id := fr.ctx + "/" + funcKey(fr.fn) + "#b" + strconv.Itoa(h.Index)
	k := famIdx(id)
	f2 := fr.clone()
	s2 := st.clone()
	if hinc != nil {
		f2.env[hinc] = k
		f2.env[phiI] = mk("bin", "-", types.Typ[types.Int], k, tConst("1", types.Typ[types.Int]))
	} else {
		f2.env[phiI] = k
	}
	if phiA != nil {
		f2.env[phiA] = tNil
	}
	for _, ins := range hdrEval {
		alts := x.step(f2, ins, s2)
		if len(alts) != 1 {
			return nil, false
		}
		s2 = alts[0].st
		if v, ok := ins.(ssa.Value); ok && alts[0].val != nil {
			f2.env[v] = alts[0].val
		}
	}
	// all alternative values of the element (several when the source is an
	// abstract list: one per member)
	var elems []*Term
	okAll := true
	var run func(i int, f *Frame, s *State)
	run = func(i int, f *Frame, s *State) {
		for ; i < len(body.Instrs) && okAll; i++ {
			ins := body.Instrs[i]
			if app != nil && ins == ssa.Instruction(app) {
				es, ok := x.sliceElems(s, x.val(f, app.Call.Args[1]))
				if !ok || len(es) != 1 {
					okAll = false
					return
				}
				elems = append(elems, es[0])
				continue
			}
			if fill != nil && ins == ssa.Instruction(fill) {
				elems = append(elems, x.val(f, fill.Val))
				continue
			}
			if fill != nil {
				if ia, ok := ins.(*ssa.IndexAddr); ok && ia.X == ssa.Value(dst) {
					continue // the address of dst[idx]
				}
			}
			if _, isJ := ins.(*ssa.Jump); isJ {
				continue
			}
			alts := x.step(f, ins, s)
			if len(alts) == 0 {
				return // infeasible alternative (e.g. drawing from an empty list)
			}
			if len(alts) > 1 {
				for _, a := range alts {
					fa := f.clone()
					if v, ok := ins.(ssa.Value); ok && a.val != nil {
						fa.env[v] = a.val
					}
					run(i+1, fa, a.st.clone())
				}
				return
			}
			s = alts[0].st
			if v, ok := ins.(ssa.Value); ok && alts[0].val != nil {
				f.env[v] = alts[0].val
			}
		}
	}
	run(0, f2, s2)
	if !okAll {
		return nil, false
	}
	srcT := x.val(f2, src)
	lenT := x.val(f2, lenCall)
	var resTyp types.Type
	if phiA != nil {
		resTyp = phiA.Type()
	} else {
		resTyp = dst.Type()
	}
	var fam *Term
	switch {
	case srcT.Op == "list" || srcT.isNilConst():
		// mapping over an abstract list: the image of its members
		seen := map[string]bool{}
		var ms []*Term
		for _, e := range elems {
			if e.contains(k) {
				return nil, false
			}
			if !seen[e.key] {
				seen[e.key] = true
				ms = append(ms, e)
			}
		}
		fam = tList(srcT.Op == "list" && srcT.Aux == "exact" && len(ms) == len(srcT.Args), ms)
	case len(elems) == 1 && elems[0].contains(k):
		fam = mk("fam", id, resTyp, srcT, elems[0])
	default:
		return nil, false
	}
	fo := fr.clone()
	if phiA != nil {
		fo.env[phiA] = fam
	} else {
		fo.env[dst] = fam
	}
	for _, ins := range hdrEval {
		if v, ok := ins.(ssa.Value); ok {
			fo.env[v] = f2.env[v]
		}
	}
	if hinc != nil {
		fo.env[phiI] = mk("bin", "-", types.Typ[types.Int], lenT, tConst("1", types.Typ[types.Int]))
		fo.env[hinc] = lenT
	} else {
		fo.env[phiI] = lenT
	}
	fo.env[cmp] = tFalse
	so := st.clone()
	so.note(h.Instrs[0].Pos(), "list comprehension over %s summarised", srcT)
	if fam.Op == "list" && srcT.Op == "list" {
		// the image of an abstract list: same length, and its provenance is kept
		// so that rules can read it as "e of the members of src"
		so.setFact(tEq(mk("len", "", types.Typ[types.Int], fam), mk("len", "", types.Typ[types.Int], srcT)), true)
		so.mem["famsrc:"+fam.key] = cell{fam, srcT}
	}
	x.NComprehended++
	return []blockOut{{kind: outLoopExit, st: so, fr: fo, target: exit, from: h}}, true
}

// lenCallOutside: the bound of the loop as a value that can be evaluated in
// the frame before the loop (the len call itself when it lies outside the
// loop; for a bound re-evaluated in the header, the call is evaluated once
// against the entry state).
func lenCallOutside(fr *Frame, x *Exec, lenCall *ssa.Call, h *ssa.BasicBlock, st *State) ssa.Value {
	if lenCall.Block() != h {
		return lenCall
	}
	f2 := fr.clone()
	s2 := st.clone()
	for _, ins := range h.Instrs {
		switch ins.(type) {
		case *ssa.FieldAddr, *ssa.UnOp, *ssa.Call:
			alts := x.step(f2, ins, s2)
			if len(alts) != 1 {
				return lenCall
			}
			s2 = alts[0].st
			if v, ok := ins.(ssa.Value); ok && alts[0].val != nil {
				f2.env[v] = alts[0].val
				fr.env[v] = alts[0].val
			}
		}
	}
	return lenCall
}

// anyMember returns a term for "some element of the opaque slice b" (used when
// b is appended as a whole): b[q] for a fresh position q constrained to the
// bounds of b, with sub-slices resolved to positions of the underlying slice.
func (x *Exec) anyMember(st *State, fr *Frame, id string, b *Term) *Term {
	q := mk("anyidx", fr.ctx+"/"+id, types.Typ[types.Int], x.curMark())
	zero := tConst("0", types.Typ[types.Int])
	lo, base := zero, b
	var hi *Term
	// lo, hi are kept in the coordinates of the slice currently being peeled;
	// hi == nil stands for its length
	for base.Op == "subslice" && len(base.Args) == 3 && base.Args[0].Op != "list" && !base.Args[0].isNilConst() {
		l, h := base.Args[1], base.Args[2]
		switch {
		case hi != nil && !l.isNilConst():
			hi = x.binop(token.ADD, hi, l, types.Typ[types.Int])
		case hi == nil && !h.isNilConst():
			hi = h
		}
		if !l.isNilConst() {
			lo = x.binop(token.ADD, lo, l, types.Typ[types.Int])
		}
		base = base.Args[0]
	}
	if hi == nil {
		if base.Op == "fam" {
			if hi = x.normLen(base.Args[0], types.Typ[types.Int]); hi == nil {
				hi = mk("len", "", types.Typ[types.Int], base.Args[0])
			}
		} else {
			hi = mk("len", "", types.Typ[types.Int], base)
		}
	}
	if st.truth(tLt(lo, hi)) == 0 {
		return nil // empty range: no member
	}
	st.setFact(tLt(q, lo), false)
	st.setFact(tLt(q, zero), false)
	st.setFact(tLt(q, hi), true)
	var et types.Type
	if sl, ok := b.Typ.(*types.Slice); ok {
		et = sl.Elem()
	}
	return elemOf(base, q, et)
}

// membersOf: the members of a slice value as the abstract list domain sees
// them; an opaque slice or family contributes one quantified member.
func (x *Exec) membersOf(st *State, fr *Frame, id string, a *Term) []*Term {
	if x.Comprehend && !a.isNilConst() && (a.Op == "fam" || (a.Op == "subslice" && a.Args[0].Op != "list")) {
		if m := x.anyMember(st, fr, id, a); m != nil {
			return []*Term{m}
		}
		return nil
	}
	return listMembers(a)
}

// trivialGetter: a single-block function that only reads fields of its
// arguments and returns.
func trivialGetter(f *ssa.Function) bool {
	if len(f.Blocks) != 1 {
		return false
	}
	for _, ins := range f.Blocks[0].Instrs {
		switch v := ins.(type) {
		case *ssa.FieldAddr, *ssa.Field, *ssa.Return, *ssa.DebugRef:
		case *ssa.UnOp:
			if v.Op != token.MUL {
				return false
			}
		default:
			return false
		}
	}
	return true
}
