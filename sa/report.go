package main

import (
	"encoding/json"
	"fmt"
	"os"
	"path/filepath"
	"sort"
	"strings"
	"time"
)

// Violation is one reported rule instance: rule + construct, never a line.
type Violation struct {
	Property string   `json:"property"`
	Rule     string   `json:"rule"`
	Key      string   `json:"key"` // rule / function / construct-role
	Where    string   `json:"where"`
	Message  string   `json:"message"`
	Witness  []string `json:"witness,omitempty"`
}

// Obligation is one checked rule instance (discharged or violated).
type Obligation struct {
	Rule string `json:"rule"`
	Key  string `json:"key"`
	OK   bool   `json:"ok"`
	Note string `json:"note,omitempty"`
}

// Report accumulates what one property check did.
type Report struct {
	Property    string
	Tier        string
	Seed        int64
	Start       time.Time
	Viol        map[string]*Violation
	Obl         map[string]*Obligation
	Samples     []interface{}
	Stats       map[string]interface{}
	Assumptions []string
	NotDecided  []string
	Explanation string
	Advisory    []string
	Floors      []string // unmet instance floors -> exit 2
	Engines     []string
}

func newReport(prop, tier string, seed int64) *Report {
	return &Report{Property: prop, Tier: tier, Seed: seed, Start: time.Now(), Viol: map[string]*Violation{}, Obl: map[string]*Obligation{}, Stats: map[string]interface{}{}}
}

// violate records a violation once per key (first witness wins, shortest preferred).
func (r *Report) violate(rule, key, where, msg string, witness []string) {
	k := rule + " / " + key
	if old, ok := r.Viol[k]; ok {
		if len(witness) > 0 && (len(old.Witness) == 0 || len(witness) < len(old.Witness)) {
			old.Witness, old.Where, old.Message = witness, where, msg
		}
	} else {
		r.Viol[k] = &Violation{Property: r.Property, Rule: rule, Key: k, Where: where, Message: msg, Witness: witness}
	}
	r.Obl[k] = &Obligation{Rule: rule, Key: k, OK: false, Note: msg}
}

// ok records a discharged obligation (a violation on another path wins).
func (r *Report) ok(rule, key, note string) {
	k := rule + " / " + key
	if _, bad := r.Viol[k]; bad {
		return
	}
	if _, seen := r.Obl[k]; !seen {
		r.Obl[k] = &Obligation{Rule: rule, Key: k, OK: true, Note: note}
	}
}

// floor asserts that a rule matched at least n instances.
func (r *Report) floor(rule string, got, want int, what string) {
	r.Stats["instances."+rule] = got
	if got < want {
		r.Floors = append(r.Floors, fmt.Sprintf("%s: %d instances of %q found, at least %d expected", rule, got, what, want))
	}
}

func (r *Report) countRule(prefix string) int {
	n := 0
	for _, o := range r.Obl {
		if strings.HasPrefix(o.Rule, prefix) {
			n++
		}
	}
	return n
}

// KnownFindings is /verif/known_findings.json: committed, read-only at run time.
type KnownFindings struct {
	Findings []struct {
		Property string `json:"property"`
		Key      string `json:"key"`
		What     string `json:"what"`
	} `json:"findings"`
	Fixed []struct {
		Property string `json:"property"`
		Commit   string `json:"commit"`
		What     string `json:"what"`
	} `json:"fixed"`
}

func loadKnown(dir string) *KnownFindings {
	kf := &KnownFindings{}
	b, err := os.ReadFile(filepath.Join(dir, "known_findings.json"))
	if err != nil {
		return kf
	}
	if err := json.Unmarshal(b, kf); err != nil {
		fatalf("known_findings.json: %v", err)
	}
	return kf
}

// finish writes evidence and violation files, prints verdict lines and
// returns the exit code.
func (r *Report) finish(verifDir string) int {
	if r.Assumptions == nil {
		r.Assumptions = []string{}
	}
	if r.NotDecided == nil {
		r.NotDecided = []string{}
	}
	if r.Advisory == nil {
		r.Advisory = []string{}
	}
	if strings.TrimSpace(r.Explanation) == "" {
		r.Explanation = "static analysis of property " + r.Property + " (see DESIGN.md)"
	}
	for _, f := range r.Floors {
		// a rule that found fewer instances than were confirmed by hand would
		// pass vacuously: not established, reported like a violation
		fmt.Fprintf(os.Stderr, "ANALYSIS-INCOMPLETE: %s\n", f)
		r.violate("UNDECIDED", "instances / "+f, "-", "a rule matched fewer constructs than were confirmed on the reference tree ("+f+"): the code it is anchored in has changed shape or disappeared, so the condition is not established", nil)
	}
	r.Floors = nil
	kf := loadKnown(verifDir)
	known := map[string]string{}
	for _, f := range kf.Findings {
		if f.Property == r.Property {
			known[f.Key] = f.What
		}
	}
	evDir := filepath.Join(verifDir, "evidence")
	vDir := filepath.Join(evDir, "violations")
	os.MkdirAll(vDir, 0o755)
	old, _ := filepath.Glob(filepath.Join(vDir, r.Property+"-*.json"))
	for _, f := range old {
		os.Remove(f)
	}
	var keys []string
	for k := range r.Viol {
		keys = append(keys, k)
	}
	sort.Strings(keys)
	nviol, nknown := 0, 0
	var lines []string
	for _, k := range keys {
		v := r.Viol[k]
		if what, ok := known[k]; ok {
			nknown++
			lines = append(lines, fmt.Sprintf("KNOWN-FINDING: property=%s %s — %s", r.Property, k, what))
			continue
		}
		nviol++
		path := filepath.Join(vDir, fmt.Sprintf("%s-%d.json", r.Property, nviol))
		b, _ := json.MarshalIndent(v, "", " ")
		os.WriteFile(path, b, 0o644)
		fmt.Printf("  %s\n    at %s\n    %s\n", k, v.Where, v.Message)
		lines = append(lines, fmt.Sprintf("VIOLATION property=%s replay=%s", r.Property, path))
	}
	nobl, ndis := len(r.Obl), 0
	var okeys []string
	for k, o := range r.Obl {
		okeys = append(okeys, k)
		if o.OK {
			ndis++
		}
	}
	sort.Strings(okeys)
	samples := r.Samples
	for i, k := range okeys {
		if i >= 40 {
			break
		}
		o := r.Obl[k]
		samples = append(samples, map[string]interface{}{"obligation": k, "discharged": o.OK, "note": o.Note})
	}
	if len(samples) == 0 {
		samples = append(samples, "no obligations matched")
	}
	cov := map[string]interface{}{
		"explanation":          r.Explanation,
		"obligations":          nobl,
		"discharged":           ndis,
		"evaluations":          nobl,
		"distinct_nontrivial":  nobl,
		"rule":                 "one obligation per rule x resolved construct (function / call site role / path class); distinct by key; every obligation is non-trivial in that it names a construct found in the code under analysis",
		"samples":              samples,
		"checker_cmd":          "./run.sh " + r.Property + " " + r.Tier,
		"trusted_base":         []string{"go/types and go/ssa of golang.org/x/tools v0.29.0", "this analyser", "frozen model/spec tables in DESIGN.md"},
		"not_decided":          r.NotDecided,
		"engines":              r.Engines,
		"stats":                r.Stats,
		"advisory":             r.Advisory,
		"known_findings_shown": nknown,
		"exhaustive":           false,
	}
	ev := map[string]interface{}{
		"property_id": r.Property,
		"tier":        r.Tier,
		"seed":        r.Seed,
		"level":       "other",
		"coverage":    cov,
		"assumptions": r.Assumptions,
		"wall_s":      time.Since(r.Start).Seconds(),
		"violations":  nviol,
	}
	b, _ := json.MarshalIndent(ev, "", " ")
	if err := os.WriteFile(filepath.Join(evDir, r.Property+".json"), b, 0o644); err != nil {
		fatalf("write evidence: %v", err)
	}
	fmt.Printf("%s %s: %d obligations, %d discharged, %d violations, %d known findings, %.1fs\n", r.Property, r.Tier, nobl, ndis, nviol, nknown, time.Since(r.Start).Seconds())
	for _, l := range lines {
		fmt.Println(l)
	}
	if nviol > 0 {
		return 1
	}
	if len(r.Floors) > 0 {
		for _, f := range r.Floors {
			fmt.Fprintf(os.Stderr, "ANALYSIS-INCOMPLETE: %s\n", f)
		}
		return 2
	}
	return 0
}

func witnessOf(p *Program, tr *traceNode) []string {
	var ws []string
	for n := tr; n != nil; n = n.prev {
		ws = append(ws, p.pos(n.pos)+": "+n.msg)
	}
	for i, j := 0, len(ws)-1; i < j; i, j = i+1, j-1 {
		ws[i], ws[j] = ws[j], ws[i]
	}
	return ws
}
