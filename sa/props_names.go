package main

import (
	"fmt"
	"go/token"
	"go/types"
	"os"
	"strings"

	"golang.org/x/tools/go/ssa"
)

// Name checking (C12, narrow): DT-NAME, DT-NAMECHECK, NAMECHECK-GATE,
// CONFLICT-BOTH-WAYS (prefix direction and full ancestor walk).

// findByCallees returns the unique in-package function that directly calls
// all of the given callees.
func findByCallees(p *Program, what string, callees ...string) *ssa.Function {
	var found []*ssa.Function
	for _, f := range p.Funcs {
		dc := directCallees(f)
		ok := true
		for _, c := range callees {
			if !dc[c] {
				ok = false
			}
		}
		if ok && f.Parent() == nil {
			found = append(found, f)
		}
	}
	if len(found) != 1 {
		fatalf("unresolved anchor: %s (direct callees %v): %d candidates", what, callees, len(found))
	}
	return found[0]
}

func checkNames(p *Program, r *Report) {
	// ---- DT-NAME: component validity
	// the validator: func(string) bool that splits its argument on "/"
	var validator *ssa.Function
	for _, f := range p.Funcs {
		sig := f.Signature
		if f.Parent() == nil && sig.Recv() == nil && sig.Params().Len() == 1 && sig.Results().Len() == 1 && directCallees(f)["strings.Split"] {
			if b, ok := sig.Params().At(0).Type().Underlying().(*types.Basic); ok && b.Kind() == types.String {
				if rb, ok := sig.Results().At(0).Type().Underlying().(*types.Basic); ok && rb.Kind() == types.Bool {
					if validator != nil {
						fatalf("unresolved anchor: two ref name validators")
					}
					validator = f
				}
			}
		}
	}
	if validator == nil {
		fatalf("unresolved anchor: ref name validator func(string) bool using strings.Split")
	}
	{
		fk := funcKey(validator)
		cfg := &simCfg{Pure: map[string]bool{"strings.Split": true}, NoInlineDefault: true}
		c, _ := runSim(p, validator, cfg, nil)
		nBack, nRej, nAcc := 0, 0, 0
		bad := func(comp *Term) *Formula {
			return fOr(fAtom(tEq(comp, tConst(`"."`, nil))), fAtom(tEq(comp, tConst(`".."`, nil))), fAtom(tEq(comp, tConst(`""`, nil))))
		}
		compOf := func(s simSample) *Term {
			// the component inspected by this iteration: an element of the split
			// result indexed by this loop's variable
			var comp *Term
			cm := termByKey(s.Loop)
			for _, k := range sortedFactKeys(s.St) {
				s.St.fterm[k].walk(func(u *Term) {
					if u.Op == "elem" && u.Args[0].Op == "pcall" && cm != nil && u.Args[1].contains(cm) {
						comp = u
					}
				})
			}
			return comp
		}
		split := mk("pcall", "strings.Split", nil, mk("param", fk+"."+validator.Params[0].Name(), nil), tConst(`"/"`, nil))
		for _, s := range c.Samples {
			w := witnessOf(p, s.St.trace)
			switch s.Kind {
			case "back":
				nBack++
				comp := compOf(s)
				if comp == nil || comp.Args[0] != split {
					r.violate("DT-NAME", fk+" / components accepted", p.pos(validator.Pos()), "a component is accepted without being compared (or the name is not split on \"/\")", w)
					continue
				}
				if ok, cex := implied(s.St, fNot(bad(comp))); !ok {
					r.violate("DT-NAME", fk+" / components accepted", p.pos(validator.Pos()), "a component equal to \"\", \".\" or \"..\" can be accepted: "+cex, w)
				} else {
					r.ok("DT-NAME", fk+" / components accepted", "accept => component not in {\"\", \".\", \"..\"}")
				}
			case "break":
				// a rejecting return from inside the loop
				comp := compOf(s)
				if comp == nil {
					continue
				}
				nRej++
				if ok, cex := implied(s.St, bad(comp)); !ok {
					r.violate("DT-NAME", fk+" / components rejected", p.pos(validator.Pos()), "a name can be rejected for a component that is none of \"\", \".\", \"..\": "+cex, w)
				} else {
					r.ok("DT-NAME", fk+" / components rejected", "reject => component in {\"\", \".\", \"..\"}")
				}
			case "ret":
				if !s.Panic && s.Vals[0] == tTrue {
					nAcc++
				}
			}
		}
		r.floor("DT-NAME.accept", nBack, 1, "accepting iterations of the validator")
		r.floor("DT-NAME.reject", nRej, 1, "rejecting exits of the validator")
		r.floor("DT-NAME.true", nAcc, 1, "true returns of the validator")
	}
	// ---- CONFLICT-BOTH-WAYS in the addition validator
	{
		// anchors: the two lookups are the functions or methods of the package
		// that return (bool, error), take the name looked up as their last
		// (string) parameter and seek in a Table themselves
		var lookups []*ssa.Function
		for _, f := range p.Funcs {
			sig := f.Signature
			if f.Parent() != nil || sig.Results().Len() != 2 || sig.Params().Len() == 0 || len(f.Params) == 0 {
				continue
			}
			if b, ok := sig.Results().At(0).Type().Underlying().(*types.Basic); !ok || b.Kind() != types.Bool {
				continue
			}
			if types.TypeString(sig.Results().At(1).Type(), nil) != "error" {
				continue
			}
			if b, ok := sig.Params().At(sig.Params().Len() - 1).Type().Underlying().(*types.Basic); !ok || b.Kind() != types.String {
				continue
			}
			seeks := len(callsDirect(f, "method:(Table).SeekRef")) > 0
			if !seeks {
				// through a seek helper one call away
				for k := range directCallees(f) {
					if g := p.Func(k); g != nil && g != f && len(callsDirect(g, "method:(Table).SeekRef")) > 0 {
						seeks = true
					}
				}
			}
			if seeks {
				lookups = append(lookups, f)
			}
		}
		// a function that merely forwards to another lookup is not one itself
		{
			isLookup := map[string]bool{}
			for _, f := range lookups {
				isLookup[funcKey(f)] = true
			}
			var kept []*ssa.Function
			for _, f := range lookups {
				wrapper := false
				for k := range directCallees(f) {
					if isLookup[k] && k != funcKey(f) {
						wrapper = true
					}
				}
				if !wrapper {
					kept = append(kept, f)
				}
			}
			lookups = kept
		}
		if len(lookups) != 2 {
			fatalf("unresolved anchor: the two ref lookups (functions returning (bool, error) that seek a name in a Table): %d found", len(lookups))
		}
		// prefix lookup: the one that calls strings.HasPrefix
		var exact, prefix *ssa.Function
		for _, f := range lookups {
			if directCallees(f)["strings.HasPrefix"] {
				prefix = f
			} else {
				exact = f
			}
		}
		if exact == nil || prefix == nil {
			fatalf("unresolved anchor: exact / prefix lookups")
		}
		checkLookupSound(p, r, prefix)
		// the name looked up is the last parameter (a method's receiver comes first)
		nameArgP, nameArgE := len(prefix.Params)-1, len(exact.Params)-1
		// the validator: the innermost function from which both lookups are reached
		// (directly, or through per-aspect helpers such as "not a directory" /
		// "no parent is a ref"); those helpers are analysed as part of it
		var val *ssa.Function
		viaHelpers := map[string]bool{}
		{
			cand := map[*ssa.Function]bool{}
			for _, f := range p.Funcs {
				if f.Parent() == nil && f != exact && f != prefix && reachesCallee(p, f, funcKey(exact), 1) && reachesCallee(p, f, funcKey(prefix), 1) {
					cand[f] = true
				}
			}
			var inner []*ssa.Function
			for f := range cand {
				isInner := true
				for k := range directCallees(f) {
					if g := p.Func(k); g != nil && g != f && cand[g] {
						isInner = false
					}
				}
				if isInner {
					inner = append(inner, f)
				}
			}
			if len(inner) != 1 {
				fatalf("unresolved anchor: addition validator (reaches %s and %s): %d candidates", funcKey(exact), funcKey(prefix), len(inner))
			}
			val = inner[0]
			for k := range directCallees(val) {
				if g := p.Func(k); g != nil && g != exact && g != prefix && g != validator && (directCallees(g)[funcKey(exact)] || directCallees(g)[funcKey(prefix)]) {
					viaHelpers[k] = true
				}
			}
		}
		// when the per-name part was split off, the loop over the additions is in
		// its caller: analyse that, with the per-name part inlined
		hasLoop := func(f *ssa.Function) bool {
			for _, b := range f.Blocks {
				for _, su := range b.Succs {
					if su.Dominates(b) {
						return true
					}
				}
			}
			return false
		}
		callsValidatorInLoop := false
		for _, ci := range callsDirect(val, funcKey(validator)) {
			for _, b := range val.Blocks {
				for _, su := range b.Succs {
					if su.Dominates(b) && su.Dominates(ci.Block()) {
						callsValidatorInLoop = true
					}
				}
			}
		}
		inline := map[string]bool{}
		for k := range viaHelpers {
			inline[k] = true
		}
		if !callsValidatorInLoop {
			var callers []*ssa.Function
			for _, g := range p.Funcs {
				if g != val && g.Parent() == nil && directCallees(g)[funcKey(val)] && hasLoop(g) {
					callers = append(callers, g)
				}
			}
			if len(callers) == 1 {
				inline[funcKey(val)] = true
				val = callers[0]
			}
		}
		// small string helpers (parent directory of a name) are part of the walk
		for _, g := range p.Funcs {
			if g.Parent() == nil && g.Signature.Recv() == nil && g.Signature.Params().Len() == 1 && g.Signature.Results().Len() == 1 &&
				types.TypeString(g.Signature.Params().At(0).Type(), nil) == "string" && types.TypeString(g.Signature.Results().At(0).Type(), nil) == "string" && g != validator {
				inline[funcKey(g)] = true
			}
		}
		fk := funcKey(val)
		cfg := &simCfg{
			Event:           map[string]bool{funcKey(exact): true, funcKey(prefix): true, funcKey(validator): true},
			Pure:            map[string]bool{"path.Split": true, "strings.TrimSuffix": true, "strings.LastIndexByte": true, "strings.LastIndex": true, "path.Dir": true},
			Keep:            map[string]bool{funcKey(exact): true, funcKey(prefix): true},
			NoInlineDefault: true,
			Inline:          inline,
		}
		c, _ := runSim(p, val, cfg, nil)
		n := 0
		for _, s := range c.Samples {
			if s.Kind != "back" {
				continue
			}
			cm := termByKey(s.Loop)
			// outer iterations only: the loop variable ranges over the additions parameter
			isOuter := false
			var addName *Term
			for _, e := range s.Events {
				if e.Op == "ev" && e.Aux == funcKey(validator) && cm != nil && e.Args[0].contains(cm) {
					isOuter = true
					addName = e.Args[0]
				}
			}
			if !isOuter {
				continue
			}
			n++
			w := witnessOf(p, s.St.trace)
			// 1. the name was validated and found valid
			okValid := false
			okPrefix := false
			for i, e := range s.Events {
				if e.Op != "ev" || i+1 >= len(s.Events) {
					continue
				}
				res := s.Events[i+1].Args[0]
				if e.Aux == funcKey(validator) && e.Args[0] == addName && s.St.truth(res) == 1 {
					okValid = true
				}
				if e.Aux == funcKey(prefix) && res.Op == "tuple" {
					want := mk("bin", "+", nil, addName, tConst(`"/"`, nil))
					if nameArgP < len(e.Args) && e.Args[nameArgP] == want && s.St.truth(res.Args[0]) == 0 {
						okPrefix = true
					}
				}
			}
			if !okValid {
				r.violate("NAME-VALIDATED", fk+" / every addition's name is validated", p.pos(val.Pos()), "an added name is accepted without the component check having returned true", w)
			} else {
				r.ok("NAME-VALIDATED", fk+" / every addition's name is validated", "accept => validator(name) = true")
			}
			if !okPrefix {
				r.violate("CONFLICT-BOTH-WAYS", fk+" / no existing ref below the new name", p.pos(val.Pos()), "an addition is accepted without the lookup for refs under name+\"/\" having answered no", w)
			} else {
				r.ok("CONFLICT-BOTH-WAYS", fk+" / no existing ref below the new name", "accept => no ref with prefix name+\"/\"")
			}
			// 2. every ancestor directory was looked up: an inner loop walked the
			// name up to the empty string, each step finding no ref
			walked := false
			for _, k := range sortedFactKeys(s.St) {
				v := s.St.facts[k]
				_ = v
				t := s.St.fterm[k]
				if t.Op == "eq" && v {
					for i := 0; i < 2; i++ {
						a, b := t.Args[i], t.Args[1-i]
						if b.isConst() && b.Aux == `""` && a.Op == "loopvar" && a.Args[0].Op == "loopcur" && a.Args[0].contains(cm) {
							walked = true
						}
					}
				}
			}
			if !walked {
				r.violate("CONFLICT-BOTH-WAYS", fk+" / every ancestor directory is checked", p.pos(val.Pos()), "an addition is accepted without walking all its ancestor directories up to the root (only some of them are looked up): a ref two or more levels above could be a live ref", w)
			} else {
				r.ok("CONFLICT-BOTH-WAYS", fk+" / every ancestor directory is checked", "the ancestor walk ends only at the empty name")
			}
		}
		r.floor("CONFLICT-BOTH-WAYS", n, 1, "accepted additions (outer iterations)")
		// inner iterations: each step looks up the parent directory and continues with it
		ni := 0
		for _, s := range c.Samples {
			if s.Kind != "back" {
				continue
			}
			cm := termByKey(s.Loop)
			var look *Term
			var lookRes *Term
			for i, e := range s.Events {
				if e.Op == "ev" && e.Aux == funcKey(exact) && cm != nil && nameArgE < len(e.Args) && e.Args[nameArgE].contains(cm) && i+1 < len(s.Events) {
					look, lookRes = e, s.Events[i+1].Args[0]
				}
			}
			if look == nil || strings.Contains(look.Args[nameArgE].key, "bin[+]") {
				continue
			}
			ni++
			w := witnessOf(p, s.St.trace)
			dir := look.Args[nameArgE]
			isParent := dir.Op == "pcall" && (dir.Aux == "strings.TrimSuffix" || dir.Aux == "path.Dir")
			isLastSlash := func(t *Term) bool {
				return t.Op == "pcall" && (t.Aux == "strings.LastIndexByte" || t.Aux == "strings.LastIndex")
			}
			if dir.Op == "subslice" && len(dir.Args) == 3 {
				// name[:LastIndexByte(name, '/')]
				lo, hi := dir.Args[1], dir.Args[2]
				if (lo.isNilConst() || (lo.isConst() && lo.Aux == "0")) && isLastSlash(hi) && hi.Args[0] == dir.Args[0] {
					isParent = true
				}
			}
			if dir.isConst() && dir.Aux == `""` {
				// no slash left: the parent is the root
				for _, k := range sortedFactKeys(s.St) {
					t := s.St.fterm[k]
					if t != nil && t.Op == "lt" && s.St.facts[k] && isLastSlash(t.Args[0]) && t.Args[1].isConst() && t.Args[1].Aux == "0" {
						isParent = true
					}
				}
			}
			if !isParent || lookRes.Op != "tuple" || s.St.truth(lookRes.Args[0]) != 0 {
				r.violate("CONFLICT-BOTH-WAYS", fk+" / ancestor step", p.pos(val.Pos()), "an ancestor step continues although the parent directory was not looked up or is an existing ref", w)
			} else {
				r.ok("CONFLICT-BOTH-WAYS", fk+" / ancestor step", "continue => parent directory is not a ref")
			}
		}
		r.floor("CONFLICT-BOTH-WAYS.step", ni, 1, "ancestor walk iterations")
	}
	// ---- DT-NAMECHECK in checkAddition
	{
		chk := p.MustFunc("(*Stack).checkAddition")
		fk := funcKey(chk)
		cfg := &simCfg{
			Event:  map[string]bool{"validateRefRecordAddition": true, "NewReader": true, "(*Reader).SeekRef": true, "method:(Table).SeekRef": true, "(*Iterator).NextRef": true, "NewFileBlockSource": true},
			Opaque: map[string]bool{"(*Reader).Close": true, "(*Stack).Merged": true, "fmt.Errorf": true},
			Keep:   map[string]bool{"validateRefRecordAddition": true},
		}
		c, _ := runSim(p, chk, cfg, nil)
		recv := mk("param", fk+"."+chk.Params[0].Name(), nil)
		skip := mk("init", "", nil, mk("field", "Config.SkipNameCheck", nil, mk("field", "Stack.cfg", nil, recv)))
		n := 0
		for _, s := range c.Samples {
			if s.Kind != "ret" || s.Panic || s.St.truth(tEq(s.Vals[0], tNil)) == 0 {
				continue
			}
			n++
			w := witnessOf(p, s.St.trace)
			v := hasEvent(s.Events, "validateRefRecordAddition")
			if v == nil {
				if s.St.truth(skip) != 1 {
					r.violate("DT-NAMECHECK", fk+" / unchecked only when SkipNameCheck", p.pos(chk.Pos()), "the name check can return nil without validating although SkipNameCheck is not set", w)
				} else {
					r.ok("DT-NAMECHECK", fk+" / unchecked only when SkipNameCheck", "nil without validation => SkipNameCheck")
				}
				continue
			}
			// the table read back is the one about to be listed, from its first ref
			sk := hasEvent(s.Events, "(*Reader).SeekRef")
			if sk == nil {
				sk = hasEvent(s.Events, "method:(Table).SeekRef") // read through a helper taking a Table
			}
			tab := mk("param", fk+"."+chk.Params[1].Name(), nil)
			nr := hasEvent(s.Events, "NewReader")
			okRead := sk != nil && sk.Args[1].isConst() && sk.Args[1].Aux == `""` && nr != nil && nr.Args[1] == tab
			if !okRead {
				r.violate("DT-NAMECHECK", fk+" / all refs of the new table are validated", p.pos(chk.Pos()), "the records validated are not read from the new table starting at its first ref", w)
			} else {
				r.ok("DT-NAMECHECK", fk+" / all refs of the new table are validated", "records are read back from the new table from the empty key to exhaustion")
			}
		}
		r.floor("DT-NAMECHECK", n, 2, "nil returns of the name check (skipped and validated)")
		// NAMECHECK-STATELESS: the verdict on a transaction depends on its records and
		// on the current view only: the check writes nothing on the handle that a later
		// check could read (a cache of names that "already passed" outlives deletions,
		// aborted transactions and other handles' commits)
		cg := buildCallGraph(p)
		reach := cg.reachable([]*ssa.Function{chk})
		stackT := p.namedType("Stack")
		bad := ""
		var badPos token.Pos
		for f := range reach {
			for _, b := range f.Blocks {
				for _, ins := range b.Instrs {
					var base ssa.Value
					switch v := ins.(type) {
					case *ssa.Store:
						if fa, ok := v.Addr.(*ssa.FieldAddr); ok {
							base = fa.X
						}
					case *ssa.MapUpdate:
						if ld, ok := v.Map.(*ssa.UnOp); ok {
							if fa, ok := ld.X.(*ssa.FieldAddr); ok {
								base = fa.X
							}
						}
					}
					if base == nil {
						continue
					}
					if pt, ok := base.Type().Underlying().(*types.Pointer); ok && types.Identical(pt.Elem(), stackT) {
						bad = funcKey(f)
						badPos = ins.Pos()
					}
				}
			}
		}
		key := fk + " / the name check keeps no state on the handle"
		if bad != "" {
			r.violate("NAMECHECK-STATELESS", key, p.pos(badPos), "the name check (through "+bad+") writes a field of the Stack handle: what a later transaction is checked against then depends on earlier checks (aborted transactions, names deleted since, other handles' commits), not only on the live refs", nil)
		} else {
			r.ok("NAMECHECK-STATELESS", key, fmt.Sprintf("no store to a Stack field in the %d functions the name check reaches", len(reach)))
		}
	}
}

func init() {
	checks["C12"] = func(p *Program, r *Report) {
		checkNames(p, r)
		checkFsSubset(p, r, []string{"NAMECHECK-GATE"}, map[string]int{"NAMECHECK-GATE": 2})
		checkTxView(p, r)
		// a name that was deleted stays deleted: a compaction above the bottom of the
		// stack reads the raw view and keeps tombstones (otherwise the ref they shadow
		// comes back to life next to refs created under or above it since)
		copyRules(p, r, func(p *Program, r *Report) { checkCompactionTables(p, r, false, true) }, "COMPACT-RAW", "DT-TOMB-REF")
		// the view the additions are validated against must hide deleted refs
		r2 := newReport(r.Property, r.Tier, r.Seed)
		checkMergedView(p, r2)
		for k, o := range r2.Obl {
			if o.Rule != "SEEK-MERGED" && o.Rule != "DT-SUPPRESS" {
				continue
			}
			if v, bad := r2.Viol[k]; bad {
				r.violate(o.Rule, strings.TrimPrefix(k, o.Rule+" / "), v.Where, v.Message, v.Witness)
			} else {
				r.ok(o.Rule, strings.TrimPrefix(k, o.Rule+" / "), o.Note)
			}
		}
		r.Engines = []string{"pathsim", "dtable", "fsproto"}
		r.Explanation = "Narrow structural clauses of the name-conflict rule: the component validator rejects exactly the components \"\", \".\" and \"..\" (decision table over all valuations); an addition is accepted only after its name was validated, the lookup for refs below name+\"/\" answered no, and an ancestor walk that ends only at the empty name found no ref at any level; the check returns nil unvalidated only when SkipNameCheck is set and otherwise validates the refs read back from the new table from its first key; every path of Addition.Add that renames a table into place passed the name check for that very file; the stack view consulted by the check hides deleted refs (merged seek returns a suppressing merged iterator)."
		r.NotDecided = []string{"soundness and completeness of the rule over histories", "how a multi-table Addition is checked across its tables beyond the structural condition TX-VIEW (the pinned tree validates each table against the stack only: known finding)", "the lookups' handling of same-transaction additions and deletions"}
		r.Assumptions = []string{"path.Split/strings.TrimSuffix compute the parent directory (library semantics)"}
	}
}

// LOOKUP-SOUND: the prefix lookup answers "no live ref under this prefix"
// only when it ran out of records or looked at a record that the transaction
// does not delete; a deleted record is skipped, never taken for the answer.
func checkLookupSound(p *Program, r *Report, prefix *ssa.Function) {
	fk := funcKey(prefix)
	cfg := &simCfg{
		Event: map[string]bool{"method:(Table).SeekRef": true, "(*Iterator).NextRef": true},
		Pure:  map[string]bool{"strings.HasPrefix": true, "sort.SearchStrings": true},
		Keep:  map[string]bool{"method:(Table).SeekRef": true},
	}
	c, _ := runSim(p, prefix, cfg, nil)
	n := 0
	bad := ""
	var w []string
	for _, s := range c.Samples {
		if s.Kind != "ret" || s.Panic || len(s.Vals) != 2 || s.St.truth(tEq(s.Vals[1], tNil)) == 0 {
			continue
		}
		res := s.Vals[0]
		if os.Getenv("RSA_DEBUG") == "16" {
			fmt.Fprintf(os.Stderr, "LOOKUP ret %s events=%d\n", res.key, len(s.Events))
			for _, k := range sortedFactKeys(s.St) {
				v := s.St.facts[k]
				_ = v
				fmt.Fprintf(os.Stderr, "    %s = %v\n", k, v)
			}
		}
		n++
		var lastNext *Term
		for i, e := range s.Events {
			if e.Op == "ev" && e.Aux == "(*Iterator).NextRef" && i+1 < len(s.Events) && s.Events[i+1].Op == "evret" {
				lastNext = s.Events[i+1].Args[0]
			}
		}
		switch {
		case res == tTrue:
		case res == tFalse:
			if (lastNext == nil || lastNext.Op != "tuple" || s.St.truth(lastNext.Args[0]) != 0) && !exhaustedThroughPhi(p, s.St) {
				bad = "the lookup answers \"no ref under this prefix\" on a path where the iterator was not exhausted (for instance right after a record the transaction deletes): later live refs under the prefix are never looked at"
				w = witnessOf(p, s.St.trace)
			}
		case res.Op == "pcall" && res.Aux == "strings.HasPrefix":
			recName := res.Args[0]
			del := -1
			for _, k := range sortedFactKeys(s.St) {
				v := s.St.facts[k]
				_ = v
				t := s.St.fterm[k]
				if t != nil && t.Op == "maplookup" && len(t.Args) == 2 && t.Args[1] == recName {
					if v {
						del = 1
					} else {
						del = 0
					}
				}
			}
			if del != 0 {
				bad = "the answer is taken from a record that was not checked against the transaction's deletions"
				w = witnessOf(p, s.St.trace)
			}
		default:
			bad = "the answer " + res.String() + " is not related to an undeleted record or to exhaustion of the iterator"
			w = witnessOf(p, s.St.trace)
		}
	}
	key := fk + " / a negative answer means no undeleted ref has the prefix"
	if bad != "" {
		r.violate("LOOKUP-SOUND", key, p.pos(prefix.Pos()), bad, w)
	} else {
		r.ok("LOOKUP-SOUND", key, fmt.Sprintf("%d successful returns: false only after exhaustion, otherwise HasPrefix of an undeleted record", n))
	}
	r.floor("LOOKUP-SOUND", n, 3, "successful returns of the prefix lookup")
}

// phiCarriesResult finds, among the loop-carried variables that the path
// values as `want`, one whose every incoming value is result number idx of a
// call to one of the named functions (directly, or through an in-package helper
// that returns that result or, if allowFalse, the constant false).  The
// variable then stands for "the result of the most recent such call" although
// the generic loop analysis treats it as an arbitrary value.
func phiCarriesResult(p *Program, st *State, want bool, callees map[string]bool, idx int, allowFalse bool) *Term {
	var okValue func(v ssa.Value, depth int) bool
	okValue = func(v ssa.Value, depth int) bool {
		if depth > 4 {
			return false
		}
		switch x := v.(type) {
		case *ssa.Const:
			return allowFalse && x.Value != nil && x.Value.ExactString() == "false"
		case *ssa.Extract:
			call, ok := x.Tuple.(*ssa.Call)
			if !ok {
				return false
			}
			cal := call.Call.StaticCallee()
			if cal == nil {
				return false
			}
			if callees[funcKey(cal)] {
				return x.Index == idx
			}
			if cal.Pkg != p.Pkg {
				return false
			}
			n := 0
			for _, b := range cal.Blocks {
				if ret, ok := b.Instrs[len(b.Instrs)-1].(*ssa.Return); ok {
					n++
					if x.Index >= len(ret.Results) || !okValue(ret.Results[x.Index], depth+1) {
						return false
					}
				}
			}
			return n > 0
		case *ssa.Phi:
			for _, e := range x.Edges {
				if e != v && !okValue(e, depth+1) {
					return false
				}
			}
			return true
		}
		return false
	}
	for _, k := range sortedFactKeys(st) {
		if st.facts[k] != want {
			continue
		}
		t := st.fterm[k]
		if t == nil || t.Op != "loopvar" || len(t.Args) == 0 {
			continue
		}
		id := t.Args[0].Aux
		if i := strings.LastIndex(id, "#b"); i >= 0 {
			id = id[:i]
		}
		if i := strings.LastIndex(id, "/"); i >= 0 {
			id = id[i+1:]
		}
		fn := p.Func(id)
		if fn == nil {
			continue
		}
		for _, b := range fn.Blocks {
			for _, ins := range b.Instrs {
				if ph, ok := ins.(*ssa.Phi); ok && ph.Name() == t.Aux && okValue(ph, 0) {
					return t
				}
			}
		}
	}
	return nil
}

// exhaustedThroughPhi: the path holds "false" for a loop-carried variable all
// of whose incoming values are the ok result of Iterator.NextRef/NextLog.
func exhaustedThroughPhi(p *Program, st *State) bool {
	return phiCarriesResult(p, st, false, map[string]bool{"(*Iterator).NextRef": true, "(*Iterator).NextLog": true}, 0, true) != nil
}

// TX-VIEW (C12): a transaction may consist of several tables.  A table of the
// transaction has to be checked against what the transaction has put in place
// before it, not only against the stack: the name check called from the
// Addition's Add must be handed the transaction (or something read from it)
// - a check that only sees the stack cannot notice "a" in the first table and
// "a/b" in the second.  Decided by data dependence on the SSA form: some
// argument of the call that reaches the addition validator is the
// receiver of Add itself or is computed from one of its slice fields (the lists
// of tables of the transaction).
func checkTxView(p *Program, r *Report) {
	addT := p.namedType("Addition")
	val := p.MustFunc("validateRefRecordAddition")
	n := 0
	for _, f := range p.Funcs {
		if f.Parent() != nil || f.Signature.Recv() == nil || !recvIsT(f, addT) || len(f.Params) == 0 {
			continue
		}
		recv := f.Params[0]
		// depends(v): v is computed from the receiver without going through its *Stack field only
		memo := map[ssa.Value]int{}
		var dep func(v ssa.Value) bool
		dep = func(v ssa.Value) bool {
			if v == ssa.Value(recv) {
				return true
			}
			if s, ok := memo[v]; ok {
				return s == 1
			}
			memo[v] = 0
			res := false
			switch x := v.(type) {
			case *ssa.FieldAddr:
				if x.X == ssa.Value(recv) {
					// only the transaction's table lists count (not tr.stack, not counters)
					ft := x.Type().(*types.Pointer).Elem()
					_, isSlice := ft.Underlying().(*types.Slice)
					res = isSlice
					break
				}
				res = dep(x.X)
			case ssa.Instruction:
				for _, op := range x.Operands(nil) {
					if *op != nil && dep(*op) {
						res = true
					}
				}
			}
			if res {
				memo[v] = 1
			}
			return res
		}
		for _, b := range f.Blocks {
			for _, ins := range b.Instrs {
				ci, ok := ins.(ssa.CallInstruction)
				if !ok {
					continue
				}
				cal := ci.Common().StaticCallee()
				if cal == nil || cal.Pkg != f.Pkg || !(cal == val || reachesCallee(p, cal, funcKey(val), 2)) {
					continue
				}
				n++
				sees := false
				for _, a := range ci.Common().Args {
					if dep(a) {
						sees = true
					}
				}
				key := funcKey(f) + " / the name check sees the transaction's earlier tables"
				if !sees {
					r.violate("TX-VIEW", key, p.pos(ci.Pos()), "the name check of a table added by a transaction is given the stack only: tables the same transaction has already put in place are not consulted, so \"a\" in one table and \"a/b\" in the next are both accepted and committed together", nil)
				} else {
					r.ok("TX-VIEW", key, "the check is handed the transaction or state read from it")
				}
			}
		}
	}
	r.floor("TX-VIEW", n, 1, "name-check calls in methods of the Addition")
}
