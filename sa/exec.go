package main

import (
	"fmt"
	"go/constant"
	"go/token"
	"go/types"
	"os"
	"sort"
	"strconv"
	"strings"

	"golang.org/x/tools/go/ssa"
)

// ---------------------------------------------------------------------------
// pathsim: path-sensitive abstract simulation of go/ssa (DESIGN §3.1).
//
// The simulator interprets SSA instructions over canonical terms.  Branches
// whose condition is decided by the path facts take one successor; others
// fork.  In-package callees are inlined; modelled callees are handled by the
// client, which also owns the ghost (typestate) part of the abstract state.
// Loops are analysed by generic iteration to a fixpoint: the body is run for
// one arbitrary iteration whose per-iteration values carry a "cur" mark; at
// the back edge the mark is renamed to the loop's "all" mark (summary of the
// iterations done so far), facts about "all" terms are intersected, list
// members are united, and the head state is re-analysed until stable.
// ---------------------------------------------------------------------------

// Ghost is the client-owned part of the abstract state.
type Ghost interface {
	Clone() Ghost
	Key() string
	// Subst renames a term inside every ghost component (loop cur -> all).
	Subst(from, to *Term) Ghost
	// Join merges another ghost state into this one at a loop head.
	Join(o Ghost) Ghost
}

type cell struct {
	addr *Term
	val  *Term
}

type traceNode struct {
	prev *traceNode
	pos  token.Pos
	msg  string
	n    int
}

// State is the abstract state of one path.
type State struct {
	mem   map[string]cell
	facts map[string]bool // key of an atom term (eq/lt/call/…) -> truth value
	fterm map[string]*Term
	ghost Ghost
	trace *traceNode
	vac   map[string]bool  // loop "all" marks that still denote the empty set
	drawn map[string]*Term // loop mark key -> member drawn by the current iteration
	done  map[string]bool  // loop "all" marks of loops left through their header (every element visited)
	steps int
}

func newState(g Ghost) *State {
	return &State{mem: map[string]cell{}, facts: map[string]bool{}, fterm: map[string]*Term{}, ghost: g, vac: map[string]bool{}, drawn: map[string]*Term{}, done: map[string]bool{}}
}

func (s *State) clone() *State {
	n := &State{mem: make(map[string]cell, len(s.mem)), facts: make(map[string]bool, len(s.facts)), fterm: make(map[string]*Term, len(s.fterm)),
		ghost: s.ghost.Clone(), trace: s.trace, vac: make(map[string]bool, len(s.vac)), drawn: make(map[string]*Term, len(s.drawn)), done: make(map[string]bool, len(s.done)), steps: s.steps}
	for k, v := range s.mem {
		n.mem[k] = v
	}
	for _, k := range sortedFactKeys(s) {
		v := s.facts[k]
		_ = v
		n.facts[k] = v
	}
	for k, v := range s.fterm {
		n.fterm[k] = v
	}
	for k, v := range s.vac {
		n.vac[k] = v
	}
	for k, v := range s.drawn {
		n.drawn[k] = v
	}
	for k, v := range s.done {
		n.done[k] = v
	}
	return n
}

func (s *State) note(pos token.Pos, format string, a ...interface{}) {
	n := 0
	if s.trace != nil {
		n = s.trace.n + 1
	}
	s.trace = &traceNode{prev: s.trace, pos: pos, msg: fmt.Sprintf(format, a...), n: n}
}

// key is the canonical rendering of the property-relevant state, used for
// the loop fixpoint test and for de-duplication.
func (s *State) key() string {
	var ks []string
	for k, c := range s.mem {
		ks = append(ks, k+"="+c.val.key)
	}
	sort.Strings(ks)
	var fs []string
	for _, k := range sortedFactKeys(s) {
		v := s.facts[k]
		_ = v
		fs = append(fs, k+"="+strconv.FormatBool(v))
	}
	sort.Strings(fs)
	var vs []string
	for k, v := range s.vac {
		if v {
			vs = append(vs, k)
		}
	}
	sort.Strings(vs)
	return strings.Join(ks, ";") + "|" + strings.Join(fs, ";") + "|" + strings.Join(vs, ";") + "|" + s.ghost.Key()
}

// setFact records the truth of an atom (negations are stripped).
// sortedFactKeys: the fact keys in a fixed order, so that rules which pick one
// of several matching atoms are deterministic.
func sortedFactKeys(s *State) []string {
	ks := make([]string, 0, len(s.facts))
	for k := range s.facts {
		ks = append(ks, k)
	}
	sort.Strings(ks)
	return ks
}

func (s *State) setFact(c *Term, v bool) {
	for c.Op == "not" {
		c = c.Args[0]
		v = !v
	}
	if c.isConst() {
		return
	}
	s.facts[c.key] = v
	s.fterm[c.key] = c
}

// truth evaluates a boolean term under the path facts: 1 true, 0 false, -1 unknown.
func (s *State) truth(c *Term) int {
	neg := false
	for c.Op == "not" {
		c = c.Args[0]
		neg = !neg
	}
	r := -1
	switch {
	case c == tTrue:
		r = 1
	case c == tFalse:
		r = 0
	default:
		if v, ok := s.facts[c.key]; ok {
			if v {
				r = 1
			} else {
				r = 0
			}
		} else if c.Op == "eq" {
			r = s.eqTruth(c.Args[0], c.Args[1])
		} else if c.Op == "lt" {
			r = s.ltByBounds(c.Args[0], c.Args[1])
			if r < 0 {
				r = s.ltByLinear(c.Args[0], c.Args[1])
			}
			// nothing is below zero among lengths and unsigned values
			if r < 0 {
				if z, ok := termInt(c.Args[1]); ok && z == 0 && (c.Args[0].Op == "len" || isUnsignedTerm(c.Args[0])) {
					r = 0
				}
			}
			// 0 < x for a length or unsigned x known to differ from 0
			if r < 0 {
				if z, ok := termInt(c.Args[0]); ok && z == 0 && (c.Args[1].Op == "len" || isUnsignedTerm(c.Args[1])) {
					if v, ok := s.facts[tEq(c.Args[1], c.Args[0]).key]; ok && !v {
						r = 1
					} else if v, ok := s.facts[tEq(c.Args[1], tConst("0", nil)).key]; ok && !v {
						r = 1
					}
				}
			}
			// replace an operand by a constant it is known to equal
			for i := 0; i < 2 && r < 0; i++ {
				if k, ok := s.constOf(c.Args[i]); ok {
					args := []*Term{c.Args[0], c.Args[1]}
					args[i] = k
					if n := tLt(args[0], args[1]); n != c {
						r = s.truth(n)
					}
				}
			}
		}
	}
	if r >= 0 && neg {
		r = 1 - r
	}
	return r
}

// ltByBounds decides c < X (or X < c) from another constant bound on X
// recorded on the path: c2 < X with c2 >= c gives c < X, and so on.
func (s *State) ltByBounds(a, b *Term) int {
	ca, oka := termInt(a)
	cb, okb := termInt(b)
	if oka == okb {
		return -1
	}
	for _, k := range sortedFactKeys(s) {
		v := s.facts[k]
		_ = v
		f := s.fterm[k]
		if f.Op != "lt" {
			continue
		}
		x, y := f.Args[0], f.Args[1]
		cx, okx := termInt(x)
		cy, oky := termInt(y)
		if oka && y == b && okx { // fact: cx < b (v) or !(cx < b): b <= cx
			if v && cx >= ca {
				return 1
			}
			if !v && cx <= ca {
				return 0 // b <= cx <= ca, so not ca < b
			}
		}
		if oka && x == b && oky { // fact: b < cy (v) or b >= cy
			if v && cy <= ca+1 {
				return 0 // b < cy <= ca+1, so b <= ca
			}
			if !v && cy > ca {
				return 1
			}
		}
		if okb && x == a && oky { // fact: a < cy
			if v && cy <= cb {
				return 1
			}
			if !v && cy >= cb {
				return 0
			}
		}
		if okb && y == a && okx { // fact: cx < a
			if v && cx+1 >= cb {
				return 0
			}
			if !v && cx < cb {
				return 1
			}
		}
	}
	return -1
}

// ltByLinear decides a < b when b - a (or a - b) is a sum of a constant and
// atoms with known constant bounds: last < last + 1 + j for a counter j >= 0.
func (s *State) ltByLinear(a, b *Term) int {
	if a.Op != "bin" && b.Op != "bin" {
		return -1
	}
	coef := map[string]int64{}
	atoms := map[string]*Term{}
	var c int64
	var lin func(t *Term, k int64) bool
	lin = func(t *Term, k int64) bool {
		if v, ok := termInt(t); ok {
			c += k * v
			return true
		}
		if t.Op == "bin" && len(t.Args) == 2 && (t.Aux == "+" || t.Aux == "-") {
			if _, isStr := constString(t.Args[1]); isStr {
				return false
			}
			k2 := k
			if t.Aux == "-" {
				k2 = -k
			}
			return lin(t.Args[0], k) && lin(t.Args[1], k2)
		}
		coef[t.key] += k
		atoms[t.key] = t
		return true
	}
	if !lin(b, 1) || !lin(a, -1) {
		return -1
	}
	// bounds of d = b - a
	lo, hi := c, c
	loOK, hiOK := true, true
	for k, co := range coef {
		if co == 0 {
			continue
		}
		lb, hasL, ub, hasU := s.constBounds(atoms[k])
		if co > 0 {
			if hasL {
				lo += co * lb
			} else {
				loOK = false
			}
			if hasU {
				hi += co * ub
			} else {
				hiOK = false
			}
		} else {
			if hasU {
				lo += co * ub
			} else {
				loOK = false
			}
			if hasL {
				hi += co * lb
			} else {
				hiOK = false
			}
		}
	}
	if loOK && lo >= 1 {
		return 1
	}
	if hiOK && hi <= 0 {
		return 0
	}
	return -1
}

// constBounds: constant lower / upper bounds of an integer term recorded on the path.
func (s *State) constBounds(t *Term) (lb int64, hasL bool, ub int64, hasU bool) {
	if t.Op == "len" || isUnsignedTerm(t) {
		lb, hasL = 0, true
	}
	for k, v := range s.facts {
		f := s.fterm[k]
		if f == nil || f.Op != "lt" || len(f.Args) != 2 {
			continue
		}
		if f.Args[0] == t {
			if cst, ok := termInt(f.Args[1]); ok {
				if v { // t < cst
					if !hasU || cst-1 < ub {
						ub, hasU = cst-1, true
					}
				} else if !hasL || cst > lb { // t >= cst
					lb, hasL = cst, true
				}
			}
		}
		if f.Args[1] == t {
			if cst, ok := termInt(f.Args[0]); ok {
				if v { // cst < t
					if !hasL || cst+1 > lb {
						lb, hasL = cst+1, true
					}
				} else if !hasU || cst < ub { // t <= cst
					ub, hasU = cst, true
				}
			}
		}
	}
	return
}

// constOf: a constant the term is known to equal through an eq fact.
func (s *State) constOf(t *Term) (*Term, bool) {
	if t.isConst() {
		return nil, false
	}
	for _, k := range sortedFactKeys(s) {
		v := s.facts[k]
		_ = v
		if !v {
			continue
		}
		f := s.fterm[k]
		if f.Op == "eq" {
			if f.Args[0] == t && f.Args[1].isConst() {
				return f.Args[1], true
			}
			if f.Args[1] == t && f.Args[0].isConst() {
				return f.Args[0], true
			}
		}
	}
	return nil, false
}

// nonNil reports whether a term is known to denote a non-nil value.
func nonNil(t *Term) bool {
	switch t.Op {
	case "alloc", "closure", "mapobj", "err", "gval", "nonnil", "func", "global", "field", "index", "slice", "bw", "file", "reader", "writer", "merged":
		return true
	case "const":
		return t.Aux != "nil"
	case "list":
		return t.Aux == "exact" && len(t.Args) > 0
	case "iface":
		return nonNil(t.Args[0])
	case "call":
		return t.Aux == "fmt.Errorf" || t.Aux == "errors.New"
	}
	return false
}

func isEmptyStr(t *Term) bool { return t.Op == "const" && t.Aux == `""` }

// nonEmptyStr: a concatenation with a non-empty constant part, or a path join.
func nonEmptyStr(t *Term) bool {
	if s, ok := constString(t); ok {
		return s != ""
	}
	if t.Op == "bin" && t.Aux == "+" {
		return nonEmptyStr(t.Args[0]) || nonEmptyStr(t.Args[1])
	}
	return t.Op == "pathjoin" || t.Op == "tmppath"
}

func (s *State) eqTruth(a, b *Term) int {
	if a == b {
		return 1
	}
	// an instance of a summary value is nil iff the summary value is
	for _, p := range [][2]*Term{{a, b}, {b, a}} {
		if p[0].isNilConst() && (p[1].Op == "inst" || p[1].Op == "draw") {
			if v, ok := s.facts[tEq(p[1].Args[0], tNil).key]; ok && !v {
				return 0
			}
			return s.eqTruth(tNil, p[1].Args[0])
		}
	}
	if a.isNilConst() && nonNil(b) || b.isNilConst() && nonNil(a) {
		return 0
	}
	if a.isNilConst() && b.Op == "list" && b.Aux == "exact" && len(b.Args) == 0 {
		return 1
	}
	if isEmptyStr(a) && nonEmptyStr(b) || isEmptyStr(b) && nonEmptyStr(a) {
		return 0
	}
	if (a.Op == "positive" && b.isConst() && b.Aux == "0") || (b.Op == "positive" && a.isConst() && a.Aux == "0") {
		return 0
	}
	if a.Op == "err" && b.Op == "err" && a.Aux != b.Aux {
		return 0
	}
	if (a.Op == "err" && b.Op == "gval") || (a.Op == "gval" && b.Op == "err") {
		return 0
	}
	if a.Op == "gval" && b.Op == "gval" && a != b {
		return 0
	}
	return -1
}

// Frame is one activation of a function being simulated.
// BackEdgeValsClient: optional; told, after OnBackEdge, the state at the head of
// this iteration and the values of the header's phis at the head and as the
// back edge hands them on (for ranking-function rules).
type BackEdgeValsClient interface {
	WantsBackEdgeVals() bool
	OnBackEdgeVals(x *Exec, st *State, fr *Frame, cur *Term, head *State, headVals, nextVals map[string]*Term)
}

type Frame struct {
	fn     *ssa.Function
	env    map[ssa.Value]*Term
	defers []deferred
	ctx    string // call-site chain, distinguishes allocation sites of inlined copies
	depth  int
}

type deferred struct {
	site   ssa.CallInstruction
	callee *ssa.Function
	fnTerm *Term
	args   []*Term
}

func (f *Frame) clone() *Frame {
	n := &Frame{fn: f.fn, env: make(map[ssa.Value]*Term, len(f.env)), ctx: f.ctx, depth: f.depth}
	for k, v := range f.env {
		n.env[k] = v
	}
	n.defers = append([]deferred(nil), f.defers...)
	return n
}

// CallOut is one abstract outcome of a modelled call.
type CallOut struct {
	St    *State
	Val   *Term // single value, or a "tuple" term
	Panic bool
}

// Client supplies call models and policies.
type Client interface {
	// Call is asked first for every call.  handled=false falls through to
	// the default (inline in-package bodies, otherwise opaque).
	Call(x *Exec, st *State, fr *Frame, site ssa.CallInstruction, callee *ssa.Function, fnTerm *Term, args []*Term) (handled bool, outs []CallOut)
	// Inline decides whether an in-package function with a body is inlined.
	Inline(callee *ssa.Function) bool
	// OnLoopExit is called when a loop is left through its header after the
	// fixpoint; backs are the back-edge states of the final round.
	OnLoopExit(x *Exec, st *State, mark *Term, backs []*State, phiLists []*Term)
	// BeforeInline / AfterInline bracket the simulation of an inlined callee.
	BeforeInline(x *Exec, st *State, fr *Frame, site ssa.CallInstruction, callee *ssa.Function, args []*Term)
	AfterInline(x *Exec, st *State, fr *Frame, site ssa.CallInstruction, callee *ssa.Function, args []*Term, val *Term)
	// OnStore is called for every store (after the memory update).
	OnStore(x *Exec, st *State, fr *Frame, pos token.Pos, addr, val, old *Term)
	// OnBackEdge is called for every path of a loop body that reaches the
	// back edge, before per-iteration terms are renamed.
	OnBackEdge(x *Exec, st *State, fr *Frame, cur *Term)
	// OnLoopLeave is called (final fixpoint round only) for every path that
	// leaves the loop to a block outside it; fromHeader tells whether the
	// exit is the loop condition or a break inside the body.
	OnLoopLeave(x *Exec, st *State, fr *Frame, cur *Term, fromHeader bool)
}

// Res is the outcome of simulating a function to one of its exits.
type Res struct {
	St    *State
	Vals  []*Term
	Panic bool
}

// BoundsClient is an optional client extension: it is told about every
// indexing, slicing and allocation with a computed size.
type BoundsClient interface {
	OnBounds(x *Exec, st *State, fr *Frame, ins ssa.Instruction, kind string, base, lo, hi *Term)
}

// LoopInvClient is an optional client extension for loop invariants: it may
// add assumptions about the havocked phi values at the loop head and is shown
// the entry values (base case) and the back-edge values (inductive step).
type LoopInvClient interface {
	OnLoopHead(x *Exec, st *State, fr *Frame, loopID string, phis map[string]*Term)
	OnLoopEdge(x *Exec, st *State, fr *Frame, loopID string, vals map[string]*Term, entry bool)
}

type Exec struct {
	StrictConv     bool   // integer conversions that may change the value yield opaque terms
	NormSubslice   bool   // s[lo:hi][j] is s[lo+j], len(s[lo:hi]) is hi-lo (opaque slices)
	curSt          *State // the state of the instruction being interpreted (for values whose content is kept per state)
	FlagExits      bool   // a back edge whose values decide a flag tested alone by the header leaves the loop directly (for done := false; !done; ...)
	PreciseExits   bool   // loop exits are recomputed from the entry values and from each back edge's values (rotation)
	Comprehend     bool   // summarise positional list comprehensions (exec_fam.go)
	NComprehended  int
	UniqueMake     bool // make([]T, n) yields a distinct term per site instead of an empty abstract list
	HavocSlicePhis bool // loop-carried slices are unknown per iteration (not accumulated lists)
	P              *Program
	C              Client
	MaxDepth       int
	MaxSteps       int
	// statistics
	NStates, NPaths, NForks, NLoops, NRounds, NInlined, NMerged int
	FuncsSeen                                                   map[string]bool
	marks                                                       []*Term // active loop cur-marks, innermost last
	loops                                                       map[*ssa.Function]map[*ssa.BasicBlock]*loopInfo
	Truncated                                                   int
	loopMemo                                                    map[string][]blockOut
}

func newExec(p *Program, c Client) *Exec {
	return &Exec{P: p, C: c, MaxDepth: 8, MaxSteps: 400000, FuncsSeen: map[string]bool{}, loops: map[*ssa.Function]map[*ssa.BasicBlock]*loopInfo{}}
}

type loopInfo struct {
	header *ssa.BasicBlock
	blocks map[*ssa.BasicBlock]bool
}

// loopsOf computes the natural loops of fn keyed by header.
func (x *Exec) loopsOf(fn *ssa.Function) map[*ssa.BasicBlock]*loopInfo {
	if l, ok := x.loops[fn]; ok {
		return l
	}
	res := map[*ssa.BasicBlock]*loopInfo{}
	for _, b := range fn.Blocks {
		for _, h := range b.Succs {
			if h.Dominates(b) {
				li := res[h]
				if li == nil {
					li = &loopInfo{header: h, blocks: map[*ssa.BasicBlock]bool{h: true}}
					res[h] = li
				}
				// blocks that reach b without passing through h
				var stack []*ssa.BasicBlock
				if !li.blocks[b] {
					li.blocks[b] = true
					stack = append(stack, b)
				}
				for len(stack) > 0 {
					n := stack[len(stack)-1]
					stack = stack[:len(stack)-1]
					for _, p := range n.Preds {
						if !li.blocks[p] {
							li.blocks[p] = true
							stack = append(stack, p)
						}
					}
				}
			}
		}
	}
	x.loops[fn] = res
	return res
}

func (x *Exec) curMark() *Term {
	if len(x.marks) == 0 {
		return mk("nomark", "", nil)
	}
	return x.marks[len(x.marks)-1]
}

// fresh creates a per-site unknown value, scoped to the current loop iteration.
// budgets of one simulation; on the reference tree the largest simulation takes
// about 0.6 M steps and the largest loop-head state is about 100 KB
const (
	maxHeadKey    = 1 << 20
	maxTotalSteps = 30_000_000
)

func (x *Exec) fresh(op string, fr *Frame, id string, typ types.Type) *Term {
	return mk(op, fr.ctx+"/"+id, typ, x.curMark())
}

// ---------------------------------------------------------------------------
// memory

func zeroOf(t types.Type) *Term {
	switch u := t.Underlying().(type) {
	case *types.Basic:
		switch {
		case u.Info()&types.IsString != 0:
			return tConst(`""`, t)
		case u.Info()&types.IsBoolean != 0:
			return tFalse
		case u.Info()&types.IsNumeric != 0:
			return tConst("0", t)
		}
		return tNil
	case *types.Struct:
		var fs []*Term
		for i := 0; i < u.NumFields(); i++ {
			fs = append(fs, zeroOf(u.Field(i).Type()))
		}
		return mk("struct", "", t, fs...)
	case *types.Array:
		return mk("zeroarray", "", t)
	}
	return tNil
}

// fieldAux names a struct field as "Type.field" (plain field name for
// unnamed structs) so that fields of different types never collide.
func fieldAux(t types.Type, i int) string {
	if p, ok := t.Underlying().(*types.Pointer); ok {
		t = p.Elem()
	}
	stt := t.Underlying().(*types.Struct)
	if n, ok := t.(*types.Named); ok {
		return n.Obj().Name() + "." + fname(stt.Field(i))
	}
	return fname(stt.Field(i))
}

func rootOf(addr *Term) *Term {
	for addr.Op == "field" || addr.Op == "index" {
		addr = addr.Args[0]
	}
	return addr
}

func (x *Exec) load(st *State, addr *Term, typ types.Type) *Term {
	if c, ok := st.mem[addr.key]; ok {
		return c.val
	}
	if typ != nil {
		if stt, ok := typ.Underlying().(*types.Struct); ok {
			var fs []*Term
			for i := 0; i < stt.NumFields(); i++ {
				fs = append(fs, x.load(st, mk("field", fieldAux(typ, i), nil, addr), stt.Field(i).Type()))
			}
			return mk("struct", "", typ, fs...)
		}
	}
	r := rootOf(addr)
	if r.Op == "draw" {
		// an instance drawn from a summary member shares the member's cells
		if c, ok := st.mem[addr.subst(r, r.Args[0]).key]; ok {
			return c.val
		}
	}
	if ep, ok := epochOf(st, addr); ok {
		// the object was handed to an opaque callee: unknown content
		return mk("init", "", typ, addr, ep)
	}
	if r.Op == "alloc" {
		if typ != nil {
			return zeroOf(typ)
		}
		return tNil
	}
	if r.Op == "global" && addr == r {
		return mk("gval", r.Aux, typ)
	}
	return mk("init", "", typ, addr)
}

func (x *Exec) store(st *State, addr, val *Term, typ types.Type) {
	if typ != nil {
		if stt, ok := typ.Underlying().(*types.Struct); ok {
			for i := 0; i < stt.NumFields(); i++ {
				var fv *Term
				if val.Op == "struct" && len(val.Args) == stt.NumFields() {
					fv = val.Args[i]
				} else {
					fv = mk("fieldof", fname(stt.Field(i)), stt.Field(i).Type(), val)
				}
				x.store(st, mk("field", fieldAux(typ, i), nil, addr), fv, stt.Field(i).Type())
			}
			return
		}
	}
	st.mem[addr.key] = cell{addr, val}
}

// havoc forgets everything known about the object behind a pointer that is
// passed to a callee the simulator does not look into: cells at or below the
// pointer are dropped and later loads from there yield terms tagged with the
// call site (an epoch), so values read before and after the call differ.
func (x *Exec) havoc(st *State, ptr *Term, site *Term) {
	for k, c := range st.mem {
		if c.addr != nil && c.val != nil && c.val.Op != "mapabs" && !strings.HasPrefix(k, "epoch:") && addrUnder(c.addr, ptr) {
			delete(st.mem, k)
		}
	}
	st.mem["epoch:"+ptr.key] = cell{ptr, site}
}

// addrUnder: addr is ptr or a field/element address below it.
func addrUnder(addr, ptr *Term) bool {
	for {
		if addr == ptr {
			return true
		}
		if addr.Op != "field" && addr.Op != "index" {
			return false
		}
		addr = addr.Args[0]
	}
}

// epochOf returns the call site that last havocked the object holding addr.
func epochOf(st *State, addr *Term) (*Term, bool) {
	for {
		if ep, ok := st.mem["epoch:"+addr.key]; ok {
			return ep.val, true
		}
		if addr.Op != "field" && addr.Op != "index" {
			return nil, false
		}
		addr = addr.Args[0]
	}
}

// ---------------------------------------------------------------------------
// values

func (x *Exec) val(fr *Frame, v ssa.Value) *Term {
	switch v := v.(type) {
	case *ssa.Const:
		if v.Value == nil {
			if _, ok := v.Type().Underlying().(*types.Struct); ok {
				return zeroOf(v.Type())
			}
			if b, ok := v.Type().Underlying().(*types.Basic); ok && b.Kind() != types.UntypedNil && b.Kind() != types.UnsafePointer {
				return zeroOf(v.Type())
			}
			return tNil
		}
		if v.Value.Kind() == constant.Bool {
			return tBool(constant.BoolVal(v.Value))
		}
		return tConst(v.Value.ExactString(), v.Type())
	case *ssa.Function:
		return mk("func", funcKey(v), v.Type())
	case *ssa.Global:
		return mk("global", v.Name(), v.Type())
	case *ssa.Builtin:
		return mk("builtin", v.Name(), nil)
	}
	if t, ok := fr.env[v]; ok {
		if t.Op == "list" && x.curSt != nil && strings.HasPrefix(t.Aux, "made:") {
			// a slice made non-empty and filled by index: its members are kept per
			// state (the frame of a loop exit still holds the value as made)
			if c, ok := x.curSt.mem["fwd:"+t.Aux]; ok && c.val != nil {
				return c.val
			}
		}
		return t
	}
	fatalf("pathsim: value %s (%T) in %s has no binding", v.Name(), v, funcKey(fr.fn))
	return nil
}

func constString(t *Term) (string, bool) {
	if t.Op != "const" || len(t.Aux) < 2 || t.Aux[0] != '"' {
		return "", false
	}
	s, err := strconv.Unquote(t.Aux)
	if err != nil {
		return "", false
	}
	return s, true
}

func constInt(t *Term) (int64, bool) {
	if t.Op != "const" {
		return 0, false
	}
	n, err := strconv.ParseInt(t.Aux, 10, 64)
	return n, err == nil
}

func (x *Exec) binop(op token.Token, a, b *Term, typ types.Type) *Term {
	switch op {
	case token.EQL:
		return tEq(a, b)
	case token.NEQ:
		return tNot(tEq(a, b))
	case token.LSS:
		return cmpFold(a, b, func(c int) bool { return c < 0 }, tLt(a, b))
	case token.GTR:
		return cmpFold(b, a, func(c int) bool { return c < 0 }, tLt(b, a))
	case token.LEQ:
		return cmpFold(b, a, func(c int) bool { return c >= 0 }, tNot(tLt(b, a)))
	case token.GEQ:
		return cmpFold(a, b, func(c int) bool { return c >= 0 }, tNot(tLt(a, b)))
	case token.ADD:
		if sa, ok := constString(a); ok {
			if sb, ok := constString(b); ok {
				return tConst(strconv.Quote(sa+sb), typ)
			}
		}
		if ia, ok := constInt(a); ok {
			if ib, ok := constInt(b); ok {
				return tConst(strconv.FormatInt(ia+ib, 10), typ)
			}
		}
		if ib, ok := constInt(b); ok {
			if t := addConst(a, ib, typ); t != nil {
				return t
			}
		}
		if ia, ok := constInt(a); ok {
			if _, isStr := constString(a); !isStr {
				if t := addConst(b, ia, typ); t != nil {
					return t
				}
			}
		}
	case token.SUB:
		if ia, ok := constInt(a); ok {
			if ib, ok := constInt(b); ok {
				return tConst(strconv.FormatInt(ia-ib, 10), typ)
			}
		}
		if ib, ok := constInt(b); ok {
			if t := addConst(a, -ib, typ); t != nil {
				return t
			}
		}
		if a == b {
			if bt, ok := typ.Underlying().(*types.Basic); ok && bt.Info()&types.IsInteger != 0 {
				return tConst("0", typ)
			}
		}
	case token.OR:
		if ia, ok := constInt(a); ok {
			if ib, ok := constInt(b); ok {
				return tConst(strconv.FormatInt(ia|ib, 10), typ)
			}
		}
	}
	return mk("bin", op.String(), typ, a, b)
}

// addConst folds (x +/- c1) + c into x +/- (c1+c) and x + 0 into x (valid in
// modular arithmetic as well); nil if a has no such shape.
func addConst(a *Term, c int64, typ types.Type) *Term {
	if c == 0 {
		return a
	}
	if a.Op != "bin" || len(a.Args) != 2 || (a.Aux != "+" && a.Aux != "-") {
		return nil
	}
	c1, ok := constInt(a.Args[1])
	if !ok {
		return nil
	}
	if _, isStr := constString(a.Args[1]); isStr {
		return nil
	}
	if a.Aux == "-" {
		c1 = -c1
	}
	sum := c1 + c
	x := a.Args[0]
	switch {
	case sum == 0:
		return x
	case sum > 0:
		return mk("bin", "+", typ, x, tConst(strconv.FormatInt(sum, 10), a.Args[1].Typ))
	default:
		return mk("bin", "-", typ, x, tConst(strconv.FormatInt(-sum, 10), a.Args[1].Typ))
	}
}

func cmpFold(a, b *Term, f func(int) bool, dflt *Term) *Term {
	if ia, ok := constInt(a); ok {
		if ib, ok := constInt(b); ok {
			c := 0
			if ia < ib {
				c = -1
			} else if ia > ib {
				c = 1
			}
			return tBool(f(c))
		}
	}
	if sa, ok := constString(a); ok {
		if sb, ok := constString(b); ok {
			return tBool(f(strings.Compare(sa, sb)))
		}
	}
	return dflt
}

// sliceElems returns the element terms of a slice value if it is a slice of
// a path-local array (varargs idiom) or an exact list.
func (x *Exec) sliceElems(st *State, s *Term) ([]*Term, bool) {
	switch {
	case s.isNilConst():
		return nil, true
	case s.Op == "list" && s.Aux == "exact":
		return s.Args, true
	case s.Op == "slice" && s.Aux == "full" && s.Args[0].Op == "alloc":
		if arr, ok := s.Args[0].Typ.(*types.Array); ok {
			var es []*Term
			for i := int64(0); i < arr.Len(); i++ {
				es = append(es, x.load(st, mk("index", "", nil, s.Args[0], tConst(strconv.FormatInt(i, 10), nil)), arr.Elem()))
			}
			return es, true
		}
	}
	return nil, false
}

// ---------------------------------------------------------------------------
// maps (abstract): st.mem["map:"+obj.key] holds mapabs(k1,v1,k2,v2,…)

func mapKey(m *Term) string { return "map:" + m.key }

func mapEntries(st *State, m *Term) [][2]*Term {
	c, ok := st.mem[mapKey(m)]
	if !ok {
		return nil
	}
	var es [][2]*Term
	for i := 0; i+1 < len(c.val.Args); i += 2 {
		es = append(es, [2]*Term{c.val.Args[i], c.val.Args[i+1]})
	}
	return es
}

func setMapEntries(st *State, m *Term, es [][2]*Term) {
	seen := map[string]bool{}
	var flat []*Term
	sort.Slice(es, func(i, j int) bool { return es[i][0].key+es[i][1].key < es[j][0].key+es[j][1].key })
	for _, e := range es {
		k := e[0].key + "\x00" + e[1].key
		if seen[k] {
			continue
		}
		seen[k] = true
		flat = append(flat, e[0], e[1])
	}
	st.mem[mapKey(m)] = cell{m, mk("mapabs", "", nil, flat...)}
}

// isSummary: the term stands for a set of run-time values (an element of an
// opaque collection or something created in an earlier loop iteration).
func isSummary(t *Term) bool {
	return t.containsOp("loopall") || t.containsOp("anyelem") || t.containsOp("elem")
}

// ---------------------------------------------------------------------------
// function simulation

// RunFunc simulates fn from its entry with the given arguments.
func (x *Exec) RunFunc(fn *ssa.Function, args []*Term, free []*Term, st *State, ctx string, depth int) []Res {
	if fn.Blocks == nil {
		fatalf("pathsim: %s has no body", funcKey(fn))
	}
	if depth > x.MaxDepth {
		fatalf("pathsim: inlining depth %d exceeded at %s", x.MaxDepth, funcKey(fn))
	}
	x.FuncsSeen[funcKey(fn)] = true
	fr := &Frame{fn: fn, env: map[ssa.Value]*Term{}, ctx: ctx, depth: depth}
	for i, p := range fn.Params {
		if i < len(args) {
			fr.env[p] = args[i]
		} else {
			fr.env[p] = mk("param", funcKey(fn)+"."+p.Name(), p.Type())
		}
	}
	for i, fv := range fn.FreeVars {
		if i < len(free) {
			fr.env[fv] = free[i]
		} else {
			fr.env[fv] = mk("free", funcKey(fn)+"."+fv.Name(), fv.Type())
		}
	}
	outs := x.execFrom(fr, fn.Blocks[0], nil, 0, st, nil)
	var res []Res
	for _, o := range outs {
		switch o.kind {
		case outReturn:
			res = append(res, Res{St: o.st, Vals: o.vals})
		case outPanic:
			res = append(res, Res{St: o.st, Panic: true})
		default:
			fatalf("pathsim: stray loop outcome at top of %s", funcKey(fn))
		}
	}
	return res
}

const (
	outReturn = iota
	outPanic
	outBackEdge
	outLoopExit
)

type blockOut struct {
	kind   int
	st     *State
	fr     *Frame
	target *ssa.BasicBlock // outLoopExit: block outside the loop; outBackEdge: header
	from   *ssa.BasicBlock
	vals   []*Term
	left   bool // the client has already been told that this path leaves the loop
}

// alt is one alternative continuation of an instruction.
type alt struct {
	st  *State
	val *Term
	pan bool
}

// execFrom runs from instruction idx of block b.  loop, if non-nil, is the
// innermost loop being analysed: reaching its header is a back edge and
// leaving its block set is a loop exit.
func (x *Exec) execFrom(fr *Frame, b *ssa.BasicBlock, pred *ssa.BasicBlock, idx int, st *State, loop *loopInfo) []blockOut {
	for {
		// entering an inner loop header from outside (or at function entry)
		if idx == 0 {
			if li := x.loopsOf(fr.fn)[b]; li != nil && li != loop {
				var outs []blockOut
				for _, ex := range x.execLoop(fr, li, pred, st) {
					switch ex.kind {
					case outReturn, outPanic:
						outs = append(outs, ex)
					case outLoopExit:
						if loop != nil && !loop.blocks[ex.target] {
							outs = append(outs, ex)
						} else if loop != nil && ex.target == loop.header {
							ex.kind = outBackEdge
							outs = append(outs, ex)
						} else {
							outs = append(outs, x.execFrom(ex.fr, ex.target, ex.from, 0, ex.st, loop)...)
						}
					}
				}
				return outs
			}
			// phi nodes
			if pred != nil {
				pi := -1
				for i, p := range b.Preds {
					if p == pred {
						pi = i
					}
				}
				var vals []*Term
				var phis []*ssa.Phi
				for _, ins := range b.Instrs {
					ph, ok := ins.(*ssa.Phi)
					if !ok {
						break
					}
					phis = append(phis, ph)
					vals = append(vals, x.val(fr, ph.Edges[pi]))
				}
				for i, ph := range phis {
					fr.env[ph] = vals[i]
				}
			}
		}
		for i := idx; i < len(b.Instrs); i++ {
			ins := b.Instrs[i]
			x.curSt = st
			st.steps++
			x.NStates++
			if x.NStates > maxTotalSteps {
				fatalf("pathsim: analysis budget exceeded: more than %d instruction steps in one simulation (entered at %s)", maxTotalSteps, funcKey(fr.fn))
			}
			if st.steps > x.MaxSteps {
				fatalf("pathsim: step cap exceeded in %s", funcKey(fr.fn))
			}
			switch ins := ins.(type) {
			case *ssa.Phi:
				if idx == 0 && pred == nil {
					if _, ok := fr.env[ins]; !ok {
						fatalf("pathsim: phi without predecessor in %s", funcKey(fr.fn))
					}
				}
				continue
			case *ssa.Jump:
				return x.edge(fr, b, b.Succs[0], st, loop)
			case *ssa.If:
				c := x.val(fr, ins.Cond)
				switch st.truth(c) {
				case 1:
					return x.edge(fr, b, b.Succs[0], st, loop)
				case 0:
					return x.edge(fr, b, b.Succs[1], st, loop)
				}
				x.NForks++
				st2 := st.clone()
				fr2 := fr.clone()
				st.setFact(c, true)
				st.note(ins.Pos(), "branch %s = true", c)
				st2.setFact(c, false)
				st2.note(ins.Pos(), "branch %s = false", c)
				outs := x.edge(fr, b, b.Succs[0], st, loop)
				outs = append(outs, x.edge(fr2, b, b.Succs[1], st2, loop)...)
				return outs
			case *ssa.Return:
				var vals []*Term
				for _, r := range ins.Results {
					vals = append(vals, x.val(fr, r))
				}
				x.NPaths++
				return []blockOut{{kind: outReturn, st: st, fr: fr, vals: vals}}
			case *ssa.Panic:
				st.note(ins.Pos(), "panic(%s)", x.val(fr, ins.X))
				x.NPaths++
				return []blockOut{{kind: outPanic, st: st, fr: fr}}
			}
			alts := x.step(fr, ins, st)
			if len(alts) == 1 && !alts[0].pan {
				st = alts[0].st
				if v, ok := ins.(ssa.Value); ok && alts[0].val != nil {
					fr.env[v] = alts[0].val
				}
				continue
			}
			var outs []blockOut
			for k, a := range alts {
				if a.pan {
					x.NPaths++
					outs = append(outs, blockOut{kind: outPanic, st: a.st, fr: fr})
					continue
				}
				f2 := fr
				if k < len(alts)-1 {
					f2 = fr.clone()
				}
				if v, ok := ins.(ssa.Value); ok && a.val != nil {
					f2.env[v] = a.val
				}
				outs = append(outs, x.execFrom(f2, b, pred, i+1, a.st, loop)...)
			}
			return outs
		}
		fatalf("pathsim: block %d of %s has no terminator", b.Index, funcKey(fr.fn))
	}
}

func (x *Exec) edge(fr *Frame, from, to *ssa.BasicBlock, st *State, loop *loopInfo) []blockOut {
	if loop != nil {
		if to == loop.header {
			return []blockOut{{kind: outBackEdge, st: st, fr: fr, target: to, from: from}}
		}
		if !loop.blocks[to] {
			return []blockOut{{kind: outLoopExit, st: st, fr: fr, target: to, from: from}}
		}
	}
	return x.execFrom(fr, to, from, 0, st, loop)
}

// ---------------------------------------------------------------------------
// loops

func loopMarkTerms(fr *Frame, li *loopInfo, outer *Term) (cur, all *Term) {
	id := fr.ctx + "/" + funcKey(fr.fn) + "#b" + strconv.Itoa(li.header.Index)
	return mk("loopcur", id, nil, outer), mk("loopall", id, nil, outer)
}

// execLoop analyses loop li entered from pred with state st (DESIGN §3.1).
func (x *Exec) execLoop(fr *Frame, li *loopInfo, pred *ssa.BasicBlock, st *State) []blockOut {
	// identical abstract states entering the same loop have identical continuations
	var mk0 strings.Builder
	mk0.WriteString(fr.ctx)
	mk0.WriteString(funcKey(fr.fn))
	mk0.WriteString(strconv.Itoa(li.header.Index))
	if pred != nil {
		mk0.WriteString("<" + strconv.Itoa(pred.Index))
	}
	mk0.WriteString(x.curMark().key)
	mk0.WriteString(st.key())
	var evs []string
	for v, t := range fr.env {
		evs = append(evs, v.Name()+"="+t.key)
	}
	sort.Strings(evs)
	mk0.WriteString(strings.Join(evs, ","))
	for _, d := range fr.defers {
		mk0.WriteString("D" + d.fnTerm.key)
	}
	memoKey := mk0.String()
	if x.loopMemo == nil {
		x.loopMemo = map[string][]blockOut{}
	}
	if outs, ok := x.loopMemo[memoKey]; ok {
		x.NMerged++
		res := make([]blockOut, len(outs))
		for i, o := range outs {
			res[i] = o
			res[i].st = o.st.clone()
			res[i].st.trace = st.trace
			res[i].fr = o.fr.clone()
		}
		return res
	}
	outs := x.execLoopUncached(fr, li, pred, st)
	saved := make([]blockOut, len(outs))
	for i, o := range outs {
		saved[i] = o
		saved[i].st = o.st.clone()
		saved[i].fr = o.fr.clone()
	}
	x.loopMemo[memoKey] = saved
	return outs
}

func (x *Exec) execLoopUncached(fr *Frame, li *loopInfo, pred *ssa.BasicBlock, st *State) []blockOut {
	if outs, ok := x.tryComprehension(fr, li, pred, st); ok {
		return outs
	}
	x.NLoops++
	cur, all := loopMarkTerms(fr, li, x.curMark())
	var phis []*ssa.Phi
	for _, ins := range li.header.Instrs {
		ph, ok := ins.(*ssa.Phi)
		if !ok {
			break
		}
		phis = append(phis, ph)
	}
	// E: entry state.  Scalar phi values are havocked (the analysis of the
	// body holds for an arbitrary iteration); slice-typed phis accumulate
	// like memory cells holding lists.
	isSlicePhi := func(ph *ssa.Phi) bool {
		if x.HavocSlicePhis {
			return false
		}
		_, ok := ph.Type().Underlying().(*types.Slice)
		return ok
	}
	predIdx := func(b *ssa.BasicBlock) int {
		for i, p := range li.header.Preds {
			if p == b {
				return i
			}
		}
		return -1
	}
	entryPhi := map[*ssa.Phi]*Term{}
	if pi := predIdx(pred); pi >= 0 {
		for _, ph := range phis {
			entryPhi[ph] = x.val(fr, ph.Edges[pi])
		}
	}
	phiVals := map[*ssa.Phi]*Term{}
	for _, ph := range phis {
		if isSlicePhi(ph) && entryPhi[ph] != nil {
			phiVals[ph] = entryPhi[ph]
			if e := entryPhi[ph]; e.Op == "fam" || (x.Comprehend && e.Op == "subslice" && e.Args[0].Op != "list") {
				// a family entering an accumulating loop becomes an abstract list
				// with one quantified member
				phiVals[ph] = tList(false, x.membersOf(st, fr, "phi."+ph.Name(), e))
			}
		}
	}
	if x.FlagExits {
		// the flag a loop of the form `for done := false; !done; ...` tests alone in its
		// header is tracked like an accumulating slice: iterations that decide it leave
		// the loop (flagExit), the others hand on the value they computed
		if iff, ok := li.header.Instrs[len(li.header.Instrs)-1].(*ssa.If); ok {
			c := iff.Cond
			if u, ok := c.(*ssa.UnOp); ok && u.Op == token.NOT && u.Block() == li.header {
				c = u.X
			}
			if ph, ok := c.(*ssa.Phi); ok && ph.Block() == li.header && entryPhi[ph] != nil && (entryPhi[ph] == tTrue || entryPhi[ph] == tFalse) {
				onlyPhis := true
				for _, ins := range li.header.Instrs[:len(li.header.Instrs)-1] {
					switch v := ins.(type) {
					case *ssa.Phi, *ssa.DebugRef:
					case *ssa.UnOp:
						if v.Op != token.NOT {
							onlyPhis = false
						}
					default:
						onlyPhis = false
					}
				}
				if onlyPhis {
					phiVals[ph] = entryPhi[ph]
				}
			}
		}
	}
	head := st.clone()
	head.vac[all.key] = true
	delete(head.drawn, cur.key)
	// Does the loop run at least once?  Decide the header's condition with the
	// real entry values of the phis: if it cannot leave the loop, the state
	// after the loop is a join over back-edge states only.
	mustIterate := false
	if len(entryPhi) == len(phis) {
		if iff, ok := li.header.Instrs[len(li.header.Instrs)-1].(*ssa.If); ok {
			pure := true
			pf := fr.clone()
			ps := st.clone()
			for _, ph := range phis {
				pf.env[ph] = entryPhi[ph]
			}
			for _, ins := range li.header.Instrs[len(phis) : len(li.header.Instrs)-1] {
				switch ins.(type) {
				case *ssa.BinOp, *ssa.UnOp, *ssa.DebugRef:
					if u, ok := ins.(*ssa.UnOp); ok && u.Op == token.MUL {
						pure = false
					}
				case *ssa.Call:
					if b, ok := ins.(*ssa.Call).Call.Value.(*ssa.Builtin); !ok || b.Name() != "len" {
						pure = false
					}
				default:
					pure = false
				}
				if !pure {
					break
				}
				alts := x.step(pf, ins, ps)
				if len(alts) != 1 {
					pure = false
					break
				}
				if v, ok := ins.(ssa.Value); ok && alts[0].val != nil {
					pf.env[v] = alts[0].val
				}
			}
			if pure {
				t := ps.truth(x.val(pf, iff.Cond))
				if t == 1 && li.blocks[li.header.Succs[0]] && !li.blocks[li.header.Succs[1]] {
					mustIterate = true
				}
				if t == 0 && li.blocks[li.header.Succs[1]] && !li.blocks[li.header.Succs[0]] {
					mustIterate = true
				}
			}
		}
	}
	phiKey := func() string {
		var ks []string
		for _, ph := range phis {
			if v, ok := phiVals[ph]; ok {
				ks = append(ks, ph.Name()+"="+v.key)
			}
		}
		return strings.Join(ks, ",")
	}
	entryKey, prevKey := "", ""
	var lastBacks []*State
	for round := 0; round < 12; round++ {
		x.NRounds++
		if x.NRounds%8 == 0 {
			// budget: a state that keeps growing from round to round (a value
			// copied into itself) is given up on instead of being followed for hours
			if n := len(head.key()); n > maxHeadKey {
				fatalf("pathsim: analysis budget exceeded: the abstract state at the loop %s#b%d grew to %d bytes (largest on the reference tree: about 100 KB)", funcKey(fr.fn), li.header.Index, n)
			}
		}
		if os.Getenv("RSA_DEBUG") != "" {
			fmt.Fprintf(os.Stderr, "loop %s#b%d round %d headkey %d bytes\n", funcKey(fr.fn), li.header.Index, round, len(head.key()))
			if os.Getenv("RSA_DEBUG_LOOP") == funcKey(fr.fn) {
				var ks []string
				for k, c := range head.mem {
					if c.val != nil {
						ks = append(ks, "   mem "+k+" = "+c.val.String())
					}
				}
				sort.Strings(ks)
				for _, k := range ks {
					fmt.Fprintln(os.Stderr, k)
				}
				for _, k := range sortedFactKeys(head) {
					fmt.Fprintf(os.Stderr, "   fact %s = %v\n", head.fterm[k], head.facts[k])
				}
			}
			if os.Getenv("RSA_DEBUG") == "2" && round <= 3 {
				fmt.Fprintf(os.Stderr, "%s\n", strings.ReplaceAll(strings.ReplaceAll(head.key(), ";", "\n  "), "|", "\n|"))
			}
		}
		hs := head.clone()
		hf := fr.clone()
		for _, ph := range phis {
			if v, ok := phiVals[ph]; ok {
				hf.env[ph] = v
				continue
			}
			lv := mk("loopvar", ph.Name(), ph.Type(), cur)
			hf.env[ph] = lv
			// monotone induction variable: phi = [init, phi + c], c > 0  =>  phi >= init
			if init := entryPhi[ph]; init != nil && isCountingPhi(ph, li) {
				hs.setFact(tLt(lv, init), false)
			}
		}
		loopID := funcKey(fr.fn) + "#b" + strconv.Itoa(li.header.Index)
		if lc, ok := x.C.(LoopInvClient); ok {
			pm := map[string]*Term{}
			for _, ph := range phis {
				pm[ph.Name()] = hf.env[ph]
			}
			if round == 0 {
				em := map[string]*Term{}
				for _, ph := range phis {
					if v := entryPhi[ph]; v != nil {
						em[ph.Name()] = v
					}
				}
				lc.OnLoopEdge(x, st, fr, loopID, em, true)
			}
			lc.OnLoopHead(x, hs, hf, loopID, pm)
		}
		var hsSnap *State
		bvc, wantsVals := x.C.(BackEdgeValsClient)
		wantsVals = wantsVals && bvc.WantsBackEdgeVals()
		if wantsVals {
			hsSnap = hs.clone()
		}
		x.marks = append(x.marks, cur)
		outs := x.execFromHeader(hf, li, hs)
		x.marks = x.marks[:len(x.marks)-1]
		var backs []*State
		var backOuts []blockOut
		var exits []blockOut
		var directExits []blockOut
		newPhi := map[*ssa.Phi]*Term{}
		for ph, v := range phiVals {
			newPhi[ph] = v
		}
		for oi := 0; oi < len(outs); oi++ {
			o := outs[oi]
			x.curSt = o.st
			if o.kind == outBackEdge && x.FlagExits {
				if pi := predIdx(o.from); pi >= 0 {
					if fv := x.flagValue(li, o, pi); fv != nil && o.st.truth(fv) < 0 && (fv.Op == "lt" || fv.Op == "eq" || fv.Op == "not") {
						// the flag is a comparison this iteration computed but did not
						// branch on: decide it here, once each way
						for _, val := range []bool{true, false} {
							o2 := o
							o2.st = o.st.clone()
							o2.fr = o.fr.clone()
							o2.st.setFact(fv, val)
							o2.st.note(token.NoPos, "loop flag %s = %v", fv, val)
							outs = append(outs, o2)
						}
						continue
					}
					if ex, ok := x.flagExit(li, o, phis, pi, cur, all); ok {
						// the header's test is a flag this iteration has just decided:
						// this path leaves the loop instead of being joined into its head
						x.C.OnLoopLeave(x, o.st, o.fr, cur, false)
						ex.left = true
						directExits = append(directExits, ex)
						continue
					}
				}
			}
			if o.kind == outBackEdge {
				x.C.OnBackEdge(x, o.st, o.fr, cur)
				pi := predIdx(o.from)
				if wantsVals && pi >= 0 {
					hv, nv := map[string]*Term{}, map[string]*Term{}
					for _, ph := range phis {
						if v, ok := o.fr.env[ph]; ok {
							hv[ph.Name()] = v
						}
						nv[ph.Name()] = x.val(o.fr, ph.Edges[pi])
					}
					bvc.OnBackEdgeVals(x, o.st, o.fr, cur, hsSnap, hv, nv)
				}
				if lc, ok := x.C.(LoopInvClient); ok && pi >= 0 {
					nm := map[string]*Term{}
					for _, ph := range phis {
						nm[ph.Name()] = x.val(o.fr, ph.Edges[pi])
					}
					lc.OnLoopEdge(x, o.st, o.fr, loopID, nm, false)
				}
				if pi >= 0 {
					// a slice carried by a phi is updated like a stored cell
					x.marks = append(x.marks, cur)
					for _, ph := range phis {
						if _, ok := phiVals[ph]; ok {
							x.C.OnStore(x, o.st, o.fr, token.NoPos, mk("phicell", cur.key+ph.Name(), nil), x.val(o.fr, ph.Edges[pi]), nil)
						}
					}
					x.marks = x.marks[:len(x.marks)-1]
				}
				backOuts = append(backOuts, o)
				backs = append(backs, x.renameBack(o.st, cur, all))
				if pi >= 0 {
					for _, ph := range phis {
						if _, ok := phiVals[ph]; ok {
							bv := x.val(o.fr, ph.Edges[pi]).subst(cur, all)
							newPhi[ph] = joinVals(newPhi[ph], bv, cur.key+ph.Name())
						}
					}
				}
			} else {
				exits = append(exits, o)
			}
		}
		// loop unswitching: a condition over loop-invariant terms that the
		// body decided but the entry state leaves open is decided once, before
		// the loop, by splitting the entry state.
		if round == 0 {
			var split []*Term
			seen := map[string]bool{}
			for _, b := range backs {
				for _, k := range sortedFactKeys(b) {
					t := b.fterm[k]
					if _, known := st.facts[k]; known || seen[k] || !invariantTerm(t) || st.truth(t) >= 0 {
						continue
					}
					seen[k] = true
					split = append(split, t)
				}
			}
			sort.Slice(split, func(i, j int) bool { return split[i].key < split[j].key })
			if len(split) > 0 {
				t := split[0]
				var res []blockOut
				for _, v := range []bool{true, false} {
					s2 := st.clone()
					s2.setFact(t, v)
					s2.note(token.NoPos, "loop-invariant condition %s = %v", t, v)
					res = append(res, x.execLoop(fr.clone(), li, pred, s2)...)
				}
				return res
			}
		}
		nh := st.clone()
		nh.vac[all.key] = true
		delete(nh.drawn, cur.key)
		for _, b := range backs {
			nh = joinStates(nh, b, all)
		}
		oldPhiKey := phiKey()
		phiVals = newPhi
		nk := nh.key() + "##" + phiKey()
		if nk == entryKey && oldPhiKey == phiKey() {
			// stable: exits computed from this head are the continuations
			lastBacks = backs
			if mustIterate && len(backs) > 0 {
				// exits through the header happen after at least one iteration:
				// recompute them from the join of the back-edge states alone
				var hb *State
				for _, b := range backs {
					if hb == nil {
						hb = b.clone()
					} else {
						hb = joinStates(hb, b, all)
					}
				}
				hf := fr.clone()
				for _, ph := range phis {
					if v, ok := phiVals[ph]; ok {
						hf.env[ph] = v
					} else {
						hf.env[ph] = mk("loopvar", ph.Name(), ph.Type(), cur)
					}
				}
				x.marks = append(x.marks, cur)
				outs2 := x.execFromHeader(hf, li, hb)
				x.marks = x.marks[:len(x.marks)-1]
				var kept []blockOut
				for _, e := range exits {
					if !(e.kind == outLoopExit && e.from == li.header) {
						kept = append(kept, e)
					}
				}
				for _, e := range outs2 {
					if e.kind == outLoopExit && e.from == li.header {
						kept = append(kept, e)
					}
				}
				exits = kept
			}
			if x.PreciseExits && len(entryPhi) == len(phis) {
				if pe, ok := x.preciseExits(fr, li, st, cur, phis, entryPhi, phiVals, backOuts, predIdx); ok {
					exits = pe
				}
			}
			exits = append(exits, directExits...)
			var res []blockOut
			for _, e := range exits {
				if e.kind == outLoopExit && !e.left {
					x.C.OnLoopLeave(x, e.st, e.fr, cur, e.from == li.header)
				}
				if e.kind == outLoopExit && e.from == li.header {
					e.st.done[all.key] = true
					var pl []*Term
					for _, ph := range phis {
						if v, ok := phiVals[ph]; ok {
							pl = append(pl, v)
						}
					}
					x.C.OnLoopExit(x, e.st, all, lastBacks, pl)
				}
				delete(e.st.drawn, cur.key)
				res = append(res, e)
			}
			return res
		}
		prevKey = entryKey
		entryKey = nk
		head = nh
	}
	if os.Getenv("RSA_DEBUG") != "" {
		fmt.Fprintf(os.Stderr, "last head key:\n%s\nprev:\n%s\n", strings.ReplaceAll(head.key(), ";", "\n"), strings.ReplaceAll(prevKey, ";", "\n"))
	}
	fatalf("pathsim: loop at block %d of %s did not stabilise", li.header.Index, funcKey(fr.fn))
	return nil
}

// flagValue: the value this back edge hands to the flag phi that the header
// tests alone (nil if the header has another shape).
func (x *Exec) flagValue(li *loopInfo, o blockOut, pi int) *Term {
	h := li.header
	var iff *ssa.If
	for _, ins := range h.Instrs {
		switch v := ins.(type) {
		case *ssa.Phi, *ssa.DebugRef:
		case *ssa.UnOp:
			if v.Op != token.NOT {
				return nil
			}
		case *ssa.If:
			iff = v
		default:
			return nil
		}
	}
	if iff == nil {
		return nil
	}
	c := iff.Cond
	if u, ok := c.(*ssa.UnOp); ok && u.Op == token.NOT && u.Block() == h {
		c = u.X
	}
	ph, ok := c.(*ssa.Phi)
	if !ok || ph.Block() != h {
		return nil
	}
	return x.val(o.fr, ph.Edges[pi])
}

// flagExit: the header consists of phis and a branch on one of them (or its
// negation); the value this back edge hands to that phi is a decided boolean
// that sends control out of the loop.  The result is the exit as seen from
// this back edge (marks of the current iteration renamed like for a join).
func (x *Exec) flagExit(li *loopInfo, o blockOut, phis []*ssa.Phi, pi int, cur, all *Term) (blockOut, bool) {
	h := li.header
	var iff *ssa.If
	for _, ins := range h.Instrs {
		switch v := ins.(type) {
		case *ssa.Phi, *ssa.DebugRef:
		case *ssa.UnOp:
			if v.Op != token.NOT {
				return blockOut{}, false
			}
		case *ssa.If:
			iff = v
		default:
			return blockOut{}, false
		}
	}
	if iff == nil || len(h.Succs) != 2 {
		return blockOut{}, false
	}
	neg := false
	c := iff.Cond
	if u, ok := c.(*ssa.UnOp); ok && u.Op == token.NOT && u.Block() == h {
		neg = true
		c = u.X
	}
	ph, ok := c.(*ssa.Phi)
	if !ok || ph.Block() != h {
		return blockOut{}, false
	}
	v := x.val(o.fr, ph.Edges[pi])
	t := o.st.truth(v)
	if v == tTrue {
		t = 1
	} else if v == tFalse {
		t = 0
	}
	if t < 0 {
		return blockOut{}, false
	}
	taken := t == 1
	if neg {
		taken = !taken
	}
	succ := h.Succs[1]
	if taken {
		succ = h.Succs[0]
	}
	if li.blocks[succ] {
		return blockOut{}, false
	}
	// like a break out of the body, the path keeps the marks of its (last) iteration:
	// what it created stays distinct from what earlier iterations created
	fo := o.fr.clone()
	for _, p2 := range phis {
		fo.env[p2] = x.val(o.fr, p2.Edges[pi])
	}
	for _, ins := range h.Instrs {
		if u, ok := ins.(*ssa.UnOp); ok {
			fo.env[u] = tNot(fo.env[u.X])
			if fo.env[u.X] == tTrue {
				fo.env[u] = tFalse
			} else if fo.env[u.X] == tFalse {
				fo.env[u] = tTrue
			}
		}
	}
	so := o.st.clone()
	so.note(token.NoPos, "the loop's flag %s is decided by this iteration: leaves the loop", ph.Name())
	return blockOut{kind: outLoopExit, st: so, fr: fo, target: succ, from: h}, true
}

// invariantTerm: built from parameters and constants only, so its value
// cannot change while a loop runs.
func invariantTerm(t *Term) bool {
	ok := true
	t.walk(func(s *Term) {
		switch s.Op {
		case "param", "free", "const", "eq", "lt", "not", "bin", "un":
		default:
			ok = false
		}
	})
	return ok
}

// isCountingPhi: the phi's back-edge value is phi + positive constant.
func isCountingPhi(ph *ssa.Phi, li *loopInfo) bool {
	ok := false
	for i, e := range ph.Edges {
		if !li.blocks[ph.Block().Preds[i]] {
			continue
		}
		b, isBin := e.(*ssa.BinOp)
		if !isBin || b.Op != token.ADD || b.X != ssa.Value(ph) {
			return false
		}
		c, isConst := b.Y.(*ssa.Const)
		if !isConst || c.Value == nil || constant.Sign(c.Value) <= 0 {
			return false
		}
		ok = true
	}
	return ok
}

// execFromHeader runs the header's non-phi instructions onward.
func (x *Exec) execFromHeader(fr *Frame, li *loopInfo, st *State) []blockOut {
	n := 0
	for _, ins := range li.header.Instrs {
		if _, ok := ins.(*ssa.Phi); !ok {
			break
		}
		n++
	}
	return x.execFrom(fr, li.header, nil, n, st, li)
}

// renameBack turns the per-iteration terms of a back-edge state into summary
// terms and applies the quantified-fact rule.
func (x *Exec) renameBack(s *State, cur, all *Term) *State {
	n := newState(s.ghost.Subst(cur, all))
	n.trace = s.trace
	n.steps = s.steps
	var mks []string
	for k := range s.mem {
		mks = append(mks, k)
	}
	sort.Strings(mks)
	for _, k0 := range mks {
		c := s.mem[k0]
		na := c.addr.subst(cur, all)
		nv := c.val.subst(cur, all)
		if c.val.Op == "mapabs" {
			n.mem["map:"+na.key] = cell{na, nv}
			continue
		}
		// bookkeeping cells ("len:", "fwd:", "epoch:", "famsrc:" ...) keep their prefix
		k := na.key
		if k0 != c.addr.key {
			k = strings.ReplaceAll(k0, cur.key, all.key)
		}
		if old, ok := n.mem[k]; ok && old.val != nv {
			nv = joinVals(old.val, nv, k)
		}
		n.mem[k] = cell{na, nv}
	}
	vac := s.vac[all.key]
	// facts: F(all) survives only if F(cur) also holds on this path (or all is vacuous)
	curFacts := map[string]bool{}
	for _, k := range sortedFactKeys(s) {
		v := s.facts[k]
		_ = v
		t := s.fterm[k]
		if t.contains(cur) {
			nt := t.subst(cur, all)
			curFacts[nt.key] = v
			if vac && !t.contains(all) {
				n.facts[nt.key] = v
				n.fterm[nt.key] = nt
			}
		}
	}
	for _, k := range sortedFactKeys(s) {
		v := s.facts[k]
		_ = v
		t := s.fterm[k]
		switch {
		case t.contains(cur):
			if !vac && t.contains(all) {
				// mixed fact: relates this iteration to earlier ones; dropped
			}
		case t.contains(all):
			if vac {
				continue
			}
			// was established for earlier iterations; keep only if this
			// iteration established the same fact for its own terms, or the
			// fact does not quantify over this loop's iterations alone.
			if cv, ok := curFacts[k]; ok && cv == v {
				n.facts[k] = v
				n.fterm[k] = t
			} else if !ok && !mentionsOnlyViaAll(t, all) {
				n.facts[k] = v
				n.fterm[k] = t
			}
		default:
			n.facts[k] = v
			n.fterm[k] = t
		}
	}
	for k, v := range s.vac {
		n.vac[k] = v
	}
	n.vac[all.key] = false
	for k, v := range s.done {
		n.done[k] = v
	}
	for k, v := range s.drawn {
		n.drawn[k] = v
	}
	if d, ok := s.drawn[cur.key]; ok {
		n.drawn[cur.key] = d
	}
	return n
}

func mentionsOnlyViaAll(t, all *Term) bool { return t.contains(all) }

func joinVals(a, b *Term, where string) *Term {
	if a == b {
		return a
	}
	if a.Op == "top" && a.Aux == where {
		return a
	}
	if b.Op == "top" && b.Aux == where {
		return b
	}
	// a value computed from the widened value of the same cell (top - 1) is
	// covered by it: without this the iteration entry ⊔ post(head) oscillates
	// between the widened value and small alternative sets
	wt := mk("top", where, a.Typ)
	if a.Op != "list" && b.Op != "list" && (a.contains(wt) || b.contains(wt)) {
		return wt
	}
	la := a.Op == "list" || a.isNilConst()
	lb := b.Op == "list" || b.isNilConst()
	if la && lb {
		return tList(false, append(append([]*Term{}, listMembers(a)...), listMembers(b)...))
	}
	if (a.Op == "list" && b.Op != "const") || (b.Op == "list" && a.Op != "const") {
		return tList(false, append(append([]*Term{}, listMembers(a)...), listMembers(b)...))
	}
	// scalars: keep a small set of alternatives (the simulator forks over
	// them when the cell is read, which keeps typestate precise); widen to
	// an unknown beyond that.
	var alts []*Term
	seen := map[string]bool{}
	for _, t := range []*Term{a, b} {
		ms := []*Term{t}
		if t.Op == "oneof" {
			ms = t.Args
		}
		for _, m := range ms {
			if m.Op == "top" {
				return mk("top", where, a.Typ)
			}
			if !seen[m.key] {
				seen[m.key] = true
				alts = append(alts, m)
			}
		}
	}
	if len(alts) > 4 {
		return mk("top", where, a.Typ)
	}
	sort.Slice(alts, func(i, j int) bool { return alts[i].key < alts[j].key })
	return mk("oneof", "", a.Typ, alts...)
}

// joinStates merges back-edge state b into head candidate h.
func joinStates(h, b *State, all *Term) *State {
	n := newState(h.ghost.Join(b.ghost))
	n.trace = h.trace
	n.steps = h.steps
	for k, c := range h.mem {
		if c2, ok := b.mem[k]; ok {
			if c.val.Op == "mapabs" || c2.val.Op == "mapabs" {
				es := append(append([]*Term{}, c.val.Args...), c2.val.Args...)
				var pairs [][2]*Term
				for i := 0; i+1 < len(es); i += 2 {
					pairs = append(pairs, [2]*Term{es[i], es[i+1]})
				}
				n.mem[k] = c
				setMapEntriesKey(n, k, c.addr, pairs)
				continue
			}
			n.mem[k] = cell{c.addr, joinVals(c.val, c2.val, k)}
		} else {
			// cell unknown on the other side: created inside the loop body
			n.mem[k] = c
		}
	}
	for k, c := range b.mem {
		if _, ok := h.mem[k]; !ok {
			n.mem[k] = c
		}
	}
	hv, bv := h.vac[all.key], b.vac[all.key]
	for _, k := range sortedFactKeys(h) {
		v := h.facts[k]
		_ = v
		t := h.fterm[k]
		if v2, ok := b.facts[k]; ok && v2 == v {
			n.facts[k] = v
			n.fterm[k] = t
		} else if !ok && bv && t.contains(all) {
			n.facts[k] = v
			n.fterm[k] = t
		}
	}
	for _, k := range sortedFactKeys(b) {
		v := b.facts[k]
		_ = v
		t := b.fterm[k]
		if _, ok := h.facts[k]; !ok && hv && t.contains(all) {
			n.facts[k] = v
			n.fterm[k] = t
		}
	}
	for k, v := range h.vac {
		n.vac[k] = v
	}
	n.vac[all.key] = hv && bv
	for k, v := range h.done {
		if b.done[k] == v {
			n.done[k] = v
		}
	}
	for k, v := range h.drawn {
		n.drawn[k] = v
	}
	return n
}

func setMapEntriesKey(st *State, key string, addr *Term, es [][2]*Term) {
	seen := map[string]bool{}
	var flat []*Term
	sort.Slice(es, func(i, j int) bool { return es[i][0].key+es[i][1].key < es[j][0].key+es[j][1].key })
	for _, e := range es {
		k := e[0].key + "\x00" + e[1].key
		if seen[k] {
			continue
		}
		seen[k] = true
		flat = append(flat, e[0], e[1])
	}
	st.mem[key] = cell{addr, mk("mapabs", "", nil, flat...)}
}

// preciseExits recomputes the exits of a stabilised loop by rotation: every
// concrete iteration starts either from the loop entry or from the back edge
// of the previous iteration, and the final round's back-edge states are the
// abstract representatives of "the previous iteration".  Running the header
// (and whatever follows, up to the next back edge) once from the entry values
// and once from each back edge's concrete values therefore covers every exit,
// and the exits keep the relation between the loop-carried variables and the
// calls that produced them (`for ok && p(x) { ok, err = next() }; return ok,
// err` returns the results of the last call, not an arbitrary pair).
func (x *Exec) preciseExits(fr *Frame, li *loopInfo, st *State, cur *Term, phis []*ssa.Phi, entryPhi, phiVals map[*ssa.Phi]*Term, backOuts []blockOut, predIdx func(*ssa.BasicBlock) int) ([]blockOut, bool) {
	var res []blockOut
	run := func(f *Frame, s *State) {
		x.marks = append(x.marks, cur)
		outs := x.execFromHeader(f, li, s)
		x.marks = x.marks[:len(x.marks)-1]
		for _, o := range outs {
			if o.kind != outBackEdge {
				res = append(res, o)
			}
		}
	}
	// from the entry
	hf := fr.clone()
	for _, ph := range phis {
		if v, ok := phiVals[ph]; ok && v.Op == "list" {
			hf.env[ph] = entryPhi[ph]
		} else {
			hf.env[ph] = entryPhi[ph]
		}
	}
	run(hf, st.clone())
	// from each back edge of the last round
	prev := mk("loopprev", cur.Aux, nil, cur.Args...)
	for _, o := range backOuts {
		pi := predIdx(o.from)
		if pi < 0 {
			return nil, false
		}
		s2 := substState(o.st, cur, prev)
		f2 := o.fr.clone()
		for k, v := range f2.env {
			if v != nil {
				f2.env[k] = v.subst(cur, prev)
			}
		}
		for _, ph := range phis {
			if v, ok := phiVals[ph]; ok {
				f2.env[ph] = v // accumulating slices keep their summary value
			} else {
				f2.env[ph] = x.val(o.fr, ph.Edges[pi]).subst(cur, prev)
			}
		}
		run(f2, s2)
	}
	return res, true
}

// substState: plain substitution of a term throughout a state.
func substState(s *State, from, to *Term) *State {
	n := newState(s.ghost.Subst(from, to))
	n.trace = s.trace
	n.steps = s.steps
	for k, c := range s.mem {
		if c.addr == nil {
			n.mem[k] = c
			continue
		}
		na := c.addr.subst(from, to)
		nv := c.val
		if nv != nil {
			nv = nv.subst(from, to)
		}
		// keys are the address key, possibly behind a prefix (len:, epoch:, map:)
		if strings.HasSuffix(k, c.addr.key) {
			n.mem[strings.TrimSuffix(k, c.addr.key)+na.key] = cell{na, nv}
		} else {
			// keyed by something else than the address (identity of a made slice)
			n.mem[strings.ReplaceAll(k, from.key, to.key)] = cell{na, nv}
		}
	}
	for k, v := range s.facts {
		t := s.fterm[k].subst(from, to)
		n.facts[t.key] = v
		n.fterm[t.key] = t
	}
	for k, v := range s.vac {
		n.vac[k] = v
	}
	for k, v := range s.done {
		n.done[k] = v
	}
	for k, v := range s.drawn {
		n.drawn[k] = v
	}
	return n
}
