#!/bin/sh
# ./run.sh <property|explain> <quick|thorough|path>
cd "$(dirname "$0")"
. ./env.sh
[ -x bin/rsa ] || ./setup.sh >/dev/null || exit 2
if [ "$1" = "explain" ]; then exec bin/rsa explain "$2"; fi
exec bin/rsa check --property "$1" --tier "${2:-quick}" --repo "${REPO:-/repo}" --verif "$(pwd)"
