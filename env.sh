# Offline Go environment shared by setup.sh and run.sh.
export GOPROXY=off GOSUMDB=off GOTOOLCHAIN=local GOFLAGS=-mod=mod CGO_ENABLED=0
unset GOWORK
